//! C04 — any text input ends in success or a rendered diagnostic, never a crash.
//!
//! Fault enumeration: seven generator families (valid seeds, every single-token edit, every
//! single-byte edit, extreme literals, nesting, mapfile texts, late-stage failures) are run
//! through the real compile entry points.  EVERY case runs in a worker subprocess (this same
//! binary, `run C04 <tier>` with `VERIF_C04_WORKER=1`) on a thread with an 8 MiB stack -- the
//! stack the real CLI's main thread gets -- so a stack overflow, abort or endless loop kills only
//! the worker: the parent notices, re-runs that single case in a fresh worker (replay-twice rule)
//! and carries on behind it.
//!
//! Oracle per input: no panic (including the diagnostic renderer), `Ok` <=> no error-severity
//! diagnostic rendered, terminates within 10 s, worker survives, no > 1 GiB RSS growth.

use std::collections::{BTreeMap, HashMap, HashSet};
use std::hash::{Hash, Hasher};
use std::io::{BufRead, BufReader, Read, Write};
use std::process::{Child, ChildStdin, Command, Stdio};
use std::sync::atomic::{AtomicUsize, Ordering};
use std::sync::{mpsc, Arc, Mutex};
use std::time::{Duration, Instant};

use serde_json::{json, Value};
use truth::Game;

use crate::common::{Panic, Report};
use crate::drive::{self, CompileOpts, Kind, Tool};

const WORKER_ENV: &str = "VERIF_C04_WORKER";
const CASE_TIMEOUT: Duration = Duration::from_secs(10);
const WORKER_STACK: usize = 8 << 20;
const VIOLATION_DEPTH: usize = 256;
/// address-space limit of a worker (KiB): 4 GiB; the largest legitimate case needs ~0.15 GiB
const WORKER_AS_KIB: u64 = 4 << 20;
/// time allowed for one case: 10 s plus 1 s per KiB of input (for the 100 KB / 10 000-statement inputs)
fn allowed(len: usize) -> Duration { CASE_TIMEOUT + Duration::from_secs(len as u64 / 1024) }

// =============================================================================================
// cases

#[derive(Clone)]
struct Case {
    tool: Tool,
    src: Vec<u8>,
    maps: Vec<String>,
    desc: String,
    /// a death of this case is information only (nesting deeper than the property's bound)
    info_only: bool,
    /// sub-key used in abort/timeout signatures (shape for the nesting family)
    sigkey: String,
    /// control case: the template itself must compile cleanly, otherwise the generator is broken (machinery error)
    must_ok: bool,
}

impl Case {
    fn new(tool: Tool, src: impl Into<Vec<u8>>, maps: &[&str], desc: impl Into<String>) -> Case {
        Case { tool, src: src.into(), maps: maps.iter().map(|s| s.to_string()).collect(), desc: desc.into(), info_only: false, sigkey: String::new(), must_ok: false }
    }
    fn control(mut self) -> Case { self.must_ok = true; self }
    fn hash64(&self) -> u64 {
        let mut h = std::collections::hash_map::DefaultHasher::new();
        (self.tool.kind as u8).hash(&mut h);
        self.tool.game.as_str().hash(&mut h);
        self.src.hash(&mut h);
        self.maps.hash(&mut h);
        h.finish()
    }
}

fn kind_name(k: Kind) -> &'static str {
    match k { Kind::Anm => "anm", Kind::Std => "std", Kind::Msg => "msg", Kind::End => "end", Kind::Mission => "mission", Kind::Ecl => "ecl" }
}
fn kind_from(s: &str) -> Option<Kind> {
    Some(match s { "anm" => Kind::Anm, "std" => Kind::Std, "msg" => Kind::Msg, "end" => Kind::End, "mission" => Kind::Mission, "ecl" => Kind::Ecl, _ => return None })
}
fn game(s: &str) -> Game { s.parse::<Game>().unwrap_or_else(|_| panic!("bad game {s}")) }
fn tool(k: Kind, g: &str) -> Tool { Tool::new(k, game(g)) }

fn hex(b: &[u8]) -> String { b.iter().map(|x| format!("{x:02x}")).collect() }
fn unhex(s: &str) -> Vec<u8> {
    (0..s.len() / 2).filter_map(|i| u8::from_str_radix(&s[2 * i..2 * i + 2], 16).ok()).collect()
}

// =============================================================================================
// evaluation of one case (worker side)

struct Verdict { class: String, viol: Option<String>, ms: u64, diag: String, ok: bool }

/// digits -> N (runs squashed), quoted / backticked text -> `_`, at most `max` chars
fn normalise(line: &str, max: usize) -> String {
    let mut out = String::new();
    let mut chars = line.chars().peekable();
    let mut n = 0usize;
    while let Some(c) = chars.next() {
        if n >= max { break; }
        if c == '`' || c == '"' || (c == '\'' && !out.ends_with(|p: char| p.is_alphanumeric())) {
            // skip to the matching close on this line, if there is one
            let rest: String = chars.clone().collect();
            if let Some(end) = rest.find(c) {
                for _ in 0..rest[..end].chars().count() + 1 { chars.next(); }
                out.push(c); out.push('_'); out.push(c); n += 3;
                continue;
            }
        }
        if c.is_ascii_digit() { if !out.ends_with('N') { out.push('N'); n += 1; } continue; }
        out.push(c); n += 1;
    }
    out
}

/// `Panic::signature()` with build-directory hashes removed (generated parser lives in target/.../out/)
fn panic_sig(p: &Panic) -> String {
    let sig = p.signature();
    match sig.find("/out/") { Some(i) if sig.starts_with("panic:/") => format!("panic:{}", &sig[i + "/out/".len()..]), _ => sig }
}

fn first_error_line(diag: &str) -> Option<&str> { diag.lines().find(|l| l.starts_with("error") || l.starts_with("bug")) }

fn eval_case(c: &Case) -> Verdict {
    let maps: Vec<&str> = c.maps.iter().map(|s| s.as_str()).collect();
    let t0 = Instant::now();
    let out = drive::compile(c.tool, &c.src, &CompileOpts { mapfiles: maps, ..Default::default() });
    let ms = t0.elapsed().as_millis() as u64;
    let k = kind_name(c.tool.kind);
    let ok = out.bytes.is_some();
    let has_err = drive::has_error(&out.diag);
    let first_line = out.diag.lines().find(|l| !l.trim().is_empty()).unwrap_or("<no diagnostics>");
    let (class, viol);
    if let Some(p) = &out.panic {
        let sig = panic_sig(p);
        class = sig.clone();
        viol = Some(format!("C04:{sig}"));
    } else if let Some(pos) = out.diag.find("<diagnostic rendering panicked: ") {
        let text = out.diag[pos + "<diagnostic rendering panicked: ".len()..].trim_end_matches('>').to_string();
        let sig = panic_sig(&Panic { text });
        class = format!("render-{sig}");
        viol = Some(format!("C04:render-{sig}"));
    } else if ok && has_err {
        let l = normalise(first_error_line(&out.diag).unwrap_or(""), 80);
        class = format!("error-but-success:{l}");
        viol = Some(format!("C04:error-but-success:{k}:{l}"));
    } else if !ok && !has_err {
        let l = normalise(first_line, 80);
        class = format!("fails-without-error:{l}");
        viol = Some(format!("C04:fails-without-error:{k}:{l}"));
    } else if ms >= allowed(c.src.len() + c.maps.iter().map(|m| m.len()).sum::<usize>()).as_millis() as u64 {
        class = "slow".into();
        viol = if c.info_only { None } else { Some(format!("C04:timeout:{}{}", sigkey_prefix(c), k)) };
    } else if ok {
        class = if out.diag.lines().any(|l| l.starts_with("warning")) {
            format!("ok+{}", normalise(out.diag.lines().find(|l| l.starts_with("warning")).unwrap(), 60))
        } else { "ok".into() };
        viol = None;
    } else {
        class = normalise(first_error_line(&out.diag).unwrap_or(""), 60);
        viol = None;
    }
    Verdict { class, viol, ms, diag: out.diag, ok }
}

fn sigkey_prefix(c: &Case) -> String { if c.sigkey.is_empty() { String::new() } else { format!("{}:", c.sigkey) } }

/// coarse, position-free key of a generated case: its description without the template prefix, values and digits
fn desc_key(desc: &str) -> String {
    let d = desc.split_once(": ").map(|x| x.1).unwrap_or(desc);
    let d = d.split(" = ").next().unwrap_or(d);
    let d = d.split(", ").next().unwrap_or(d);
    let mut out = String::new();
    for c in d.chars().take(60) { if c.is_ascii_digit() { if out.ends_with('-') { out.pop(); } if !out.ends_with('N') { out.push('N'); } } else { out.push(c); } }
    out
}

fn death_cause(how: &str) -> String {
    if how.contains("overflowed its stack") || how.contains("stack overflow") { return "stack-overflow".into(); }
    if let Some(i) = how.find("memory allocation of") { return normalise(how[i..].split(" |").next().unwrap_or(""), 60); }
    if how.contains("capacity overflow") { return "capacity-overflow".into(); }
    let st = how.split(" stderr=").next().unwrap_or("").trim_start_matches("status=");
    normalise(st, 40)
}
fn death_sig(c: &Case, how: &str, timeout: bool) -> String {
    if timeout { format!("C04:timeout:{}{}", sigkey_prefix(c), kind_name(c.tool.kind)) }
    else { format!("C04:abort:{}{}:{}", sigkey_prefix(c), kind_name(c.tool.kind), death_cause(how)) }
}

fn vm_hwm_kb() -> u64 {
    std::fs::read_to_string("/proc/self/status").ok().and_then(|s| {
        s.lines().find(|l| l.starts_with("VmHWM:")).and_then(|l| l.split_whitespace().nth(1).and_then(|x| x.parse().ok()))
    }).unwrap_or(0)
}

// =============================================================================================
// worker subprocess

fn worker_main(thorough: bool) -> ! {
    let h = std::thread::Builder::new().stack_size(WORKER_STACK).name("c04-case".into()).spawn(move || worker_loop(thorough)).expect("spawn worker thread");
    let _ = h.join();
    std::process::exit(0);
}

fn worker_loop(thorough: bool) {
    let stdin = std::io::stdin();
    let stdout = std::io::stdout();
    let mut line = String::new();
    loop {
        line.clear();
        match stdin.lock().read_line(&mut line) { Ok(0) | Err(_) => return, Ok(_) => {} }
        let req: Value = match serde_json::from_str(line.trim()) { Ok(v) => v, Err(_) => continue };
        let mut o = stdout.lock();
        if let Some(raw) = req.get("raw") {
            let c = match case_from_json(raw) { Some(c) => c, None => { let _ = writeln!(o, "R {}", json!({"error": "bad raw case"})); let _ = o.flush(); continue } };
            let _ = writeln!(o, "S 0 {}", c.src.len() + c.maps.iter().map(|m| m.len()).sum::<usize>()); let _ = o.flush();
            let v = eval_case(&c);
            let _ = writeln!(o, "R {}", json!({"class": v.class, "viol": v.viol, "ms": v.ms, "ok": v.ok, "diag": v.diag.chars().take(6000).collect::<String>()}));
            let _ = o.flush();
            continue;
        }
        let item = req["item"].as_str().unwrap_or("").to_string();
        let from = req["from"].as_u64().unwrap_or(0) as usize;
        let until = req["until"].as_u64().map(|x| x as usize);
        let want_diag = req["diag"].as_bool().unwrap_or(false);
        let cases = gen_cases(&item, thorough);
        let until = until.unwrap_or(cases.len()).min(cases.len());
        let mut classes: Vec<String> = vec![];
        let mut class_ix: HashMap<String, usize> = HashMap::new();
        let mut rows: Vec<Value> = vec![];
        let mut fails: BTreeMap<String, (u64, usize, usize)> = BTreeMap::new(); // sig -> (count, min len, index)
        let mut notes: Vec<Value> = vec![];
        let mut max_ms = (0u64, 0usize);
        let mut slow: Vec<Value> = vec![];
        let mut hwm = vm_hwm_kb();
        for k in from..until {
            let c = &cases[k];
            let _ = writeln!(o, "S {k} {} {}", c.src.len() + c.maps.iter().map(|m| m.len()).sum::<usize>(), c.info_only as u8); let _ = o.flush();
            let v = eval_case(c);
            if v.ms > max_ms.0 { max_ms = (v.ms, k); }
            if v.ms >= 1000 { slow.push(json!({"index": k, "ms": v.ms, "desc": c.desc, "bytes": c.src.len()})); }
            let ix = *class_ix.entry(v.class.clone()).or_insert_with(|| { classes.push(v.class.clone()); classes.len() - 1 });
            rows.push(json!([format!("{:016x}", c.hash64()), ix]));
            let mut viol = v.viol.clone();
            let now = vm_hwm_kb();
            if now > hwm + (1 << 20) && c.src.len() < (1 << 20) && viol.is_none() && !c.info_only {
                viol = Some(format!("C04:memory-exhaustion:{}{}", sigkey_prefix(c), kind_name(c.tool.kind)));
            }
            hwm = hwm.max(now);
            if let Some(sig) = viol {
                let e = fails.entry(sig).or_insert((0, usize::MAX, k));
                e.0 += 1;
                if c.src.len() + c.maps.iter().map(|m| m.len()).sum::<usize>() < e.1 { e.1 = c.src.len() + c.maps.iter().map(|m| m.len()).sum::<usize>(); e.2 = k; }
            }
            if (want_diag || c.must_ok) && v.class != "ok" { notes.push(json!({"index": k, "desc": c.desc, "class": v.class, "diag": v.diag.chars().take(3000).collect::<String>()})); }
        }
        let fails: Vec<Value> = fails.into_iter().map(|(s, (n, len, k))| json!({"sig": s, "count": n, "len": len, "index": k})).collect();
        let _ = writeln!(o, "R {}", json!({"total": cases.len(), "from": from, "until": until, "classes": classes, "rows": rows, "fails": fails,
            "notes": notes, "slow": slow, "max_ms": max_ms.0, "max_ms_index": max_ms.1, "hwm_kb": hwm}));
        let _ = o.flush();
    }
}

fn case_to_json(c: &Case) -> Value {
    let mut v = json!({"tool": kind_name(c.tool.kind), "game": c.tool.game.as_str(), "maps": c.maps, "desc": c.desc, "sigkey": c.sigkey, "info_only": c.info_only});
    match std::str::from_utf8(&c.src) {
        Ok(s) if !s.contains('\0') => { v["src"] = json!(s); }
        _ => { v["src_hex"] = json!(hex(&c.src)); v["src_lossy"] = json!(String::from_utf8_lossy(&c.src)); }
    }
    v
}
fn case_from_json(v: &Value) -> Option<Case> {
    let kind = kind_from(v["tool"].as_str()?)?;
    let g = v["game"].as_str()?.parse::<Game>().ok()?;
    let src = if let Some(s) = v["src"].as_str() { s.as_bytes().to_vec() } else { unhex(v["src_hex"].as_str()?) };
    let maps = v["maps"].as_array().map(|a| a.iter().filter_map(|m| m.as_str().map(String::from)).collect()).unwrap_or_default();
    Some(Case { tool: Tool::new(kind, g), src, maps, desc: v["desc"].as_str().unwrap_or("").into(), info_only: v["info_only"].as_bool().unwrap_or(false), sigkey: v["sigkey"].as_str().unwrap_or("").into(), must_ok: false })
}

// =============================================================================================
// parent side: worker handles

struct Worker { child: Child, stdin: ChildStdin, rx: mpsc::Receiver<String>, stderr: Arc<Mutex<Vec<u8>>> }

fn spawn_worker(tier: &str) -> Worker {
    // RLIMIT_AS via the shell (no libc binding in this crate): a runaway allocation dies quickly with
    // "memory allocation of N bytes failed" instead of eating the machine's memory until the timeout
    let mut child = Command::new("sh")
        .arg("-c").arg(format!("ulimit -v {WORKER_AS_KIB} 2>/dev/null; exec \"$0\" \"$@\""))
        .arg(drive::exe_snapshot())
        .args(["run", "C04", tier]).env(WORKER_ENV, "1").env("RUST_BACKTRACE", "0").env_remove("TRUTH_MAP_PATH")
        .stdin(Stdio::piped()).stdout(Stdio::piped()).stderr(Stdio::piped()).spawn().expect("spawn C04 worker");
    let stdin = child.stdin.take().unwrap();
    let stdout = child.stdout.take().unwrap();
    let mut stderr_pipe = child.stderr.take().unwrap();
    let (tx, rx) = mpsc::channel();
    std::thread::spawn(move || {
        let r = BufReader::with_capacity(1 << 16, stdout);
        for l in r.lines() { match l { Ok(l) => { if tx.send(l).is_err() { break; } }, Err(_) => break } }
    });
    let stderr = Arc::new(Mutex::new(Vec::new()));
    let se = stderr.clone();
    std::thread::spawn(move || {
        let mut buf = [0u8; 4096];
        loop {
            match stderr_pipe.read(&mut buf) {
                Ok(0) | Err(_) => break,
                Ok(n) => { let mut g = se.lock().unwrap(); if g.len() < (1 << 16) { g.extend_from_slice(&buf[..n]); } }
            }
        }
    });
    Worker { child, stdin, rx, stderr }
}

impl Worker {
    fn kill(mut self) -> String {
        let _ = self.child.kill();
        let st = self.child.wait().ok();
        std::thread::sleep(Duration::from_millis(20));
        let se = String::from_utf8_lossy(&self.stderr.lock().unwrap()).to_string();
        let tail: String = se.lines().rev().take(6).collect::<Vec<_>>().into_iter().rev().collect::<Vec<_>>().join(" | ");
        format!("status={} stderr={}", st.map(|s| s.to_string()).unwrap_or_else(|| "?".into()), tail.chars().take(400).collect::<String>())
    }
}

enum Attempt { Done(Value), Died { at: Option<usize>, how: String, timeout: bool } }

/// send one request, wait for its `R` line
fn attempt(slot: &mut Option<Worker>, tier: &str, req: &Value) -> Attempt {
    if slot.is_none() { *slot = Some(spawn_worker(tier)); }
    let w = slot.as_mut().unwrap();
    let sent = writeln!(w.stdin, "{req}").and_then(|_| w.stdin.flush());
    let mut cur: Option<usize> = None;
    let mut wait = Duration::from_secs(60); // until the first case starts: process start-up and case generation
    if sent.is_ok() {
        loop {
            match w.rx.recv_timeout(wait + Duration::from_secs(2)) {
                Ok(l) => {
                    if let Some(k) = l.strip_prefix("S ") {
                        let mut it = k.split_whitespace();
                        cur = it.next().and_then(|x| x.parse().ok());
                        wait = allowed(it.next().and_then(|x| x.parse().ok()).unwrap_or(0));
                        // beyond the property's bound nothing is decided by the outcome: do not wait long for it
                        if it.next() == Some("1") { wait = wait.min(Duration::from_secs(30)); }
                    }
                    else if let Some(r) = l.strip_prefix("R ") {
                        match serde_json::from_str::<Value>(r) { Ok(v) => return Attempt::Done(v), Err(e) => { let how = format!("unparsable worker result: {e}"); slot.take().map(|w| w.kill()); return Attempt::Died { at: None, how, timeout: false } } }
                    }
                },
                Err(mpsc::RecvTimeoutError::Timeout) => {
                    let how = slot.take().map(|w| w.kill()).unwrap_or_default();
                    return Attempt::Died { at: cur, how: format!("no answer within {} s; killed ({how})", wait.as_secs()), timeout: true };
                },
                Err(mpsc::RecvTimeoutError::Disconnected) => break,
            }
        }
    }
    let how = slot.take().map(|w| w.kill()).unwrap_or_default();
    Attempt::Died { at: cur, how, timeout: false }
}

#[derive(Default)]
struct ItemAcc {
    total: usize,
    rows: Vec<(u64, String)>,             // (hash, class) of evaluated cases
    fails: Vec<(String, u64, usize, usize)>, // sig, count, len, index
    deaths: Vec<(usize, String, bool)>,   // confirmed: index, how, timeout
    machinery: Vec<String>,
    unconfirmed_deaths: u64,
    notes: Vec<Value>,
    slow: Vec<Value>,
    max_ms: (u64, usize),
    hwm_kb: u64,
}

impl ItemAcc {
    fn merge(&mut self, v: &Value) {
        self.total = v["total"].as_u64().unwrap_or(0) as usize;
        let classes: Vec<String> = v["classes"].as_array().map(|a| a.iter().map(|c| c.as_str().unwrap_or("").to_string()).collect()).unwrap_or_default();
        for r in v["rows"].as_array().into_iter().flatten() {
            let h = u64::from_str_radix(r[0].as_str().unwrap_or("0"), 16).unwrap_or(0);
            self.rows.push((h, classes.get(r[1].as_u64().unwrap_or(0) as usize).cloned().unwrap_or_default()));
        }
        for f in v["fails"].as_array().into_iter().flatten() {
            self.fails.push((f["sig"].as_str().unwrap_or("").into(), f["count"].as_u64().unwrap_or(1), f["len"].as_u64().unwrap_or(0) as usize, f["index"].as_u64().unwrap_or(0) as usize));
        }
        for n in v["notes"].as_array().into_iter().flatten() { self.notes.push(n.clone()); }
        for n in v["slow"].as_array().into_iter().flatten() { self.slow.push(n.clone()); }
        let ms = v["max_ms"].as_u64().unwrap_or(0);
        if ms > self.max_ms.0 { self.max_ms = (ms, v["max_ms_index"].as_u64().unwrap_or(0) as usize); }
        self.hwm_kb = self.hwm_kb.max(v["hwm_kb"].as_u64().unwrap_or(0));
    }
}

/// Run one item to completion, surviving worker deaths (replay-twice rule).
fn run_item(slot: &mut Option<Worker>, tier: &str, item: &str, want_diag: bool) -> ItemAcc {
    let mut acc = ItemAcc::default();
    let mut start = 0usize;
    let mut guard = 0;
    loop {
        guard += 1;
        if guard > 64 { acc.machinery.push(format!("{item}: too many worker deaths, item abandoned at case {start}")); break; }
        match attempt(slot, tier, &json!({"item": item, "from": start, "diag": want_diag})) {
            Attempt::Done(v) => { acc.merge(&v); break; },
            Attempt::Died { at: None, how, .. } => { acc.machinery.push(format!("{item}: worker died outside any case ({how})")); break; },
            Attempt::Died { at: Some(k), how, timeout } => {
                // confirm in a fresh worker
                slot.take().map(|w| w.kill());
                match attempt(slot, tier, &json!({"item": item, "from": k, "until": k + 1, "diag": want_diag})) {
                    Attempt::Done(v) => {
                        let info = gen_cases(item, tier == "thorough").get(k).map_or(false, |c| c.info_only);
                        // (the re-run judged the case; an unconfirmed first death is counted, not a machinery error)
                        if !info { acc.unconfirmed_deaths += 1; let _ = &how; }
                        acc.merge(&v);
                    },
                    Attempt::Died { how: how2, timeout: t2, .. } => { acc.deaths.push((k, format!("{how} // again: {how2}"), timeout || t2)); },
                }
                if k > start {
                    match attempt(slot, tier, &json!({"item": item, "from": start, "until": k, "diag": want_diag})) {
                        Attempt::Done(v) => acc.merge(&v),
                        Attempt::Died { at, how, .. } => acc.machinery.push(format!("{item}: re-run of cases {start}..{k} died at {at:?} ({how})")),
                    }
                }
                start = k + 1;
            },
        }
    }
    acc
}

// =============================================================================================
// source templates and seeds

const ANM_ENTRY: &str = r#"entry {
    path: "subdir/file.png",
    has_data: false,
    img_width: 512, img_height: 512, img_format: 3,
    sprites: {sprite0: {id: 0, x: 0.0, y: 0.0, w: 512.0, h: 480.0}},
}
"#;
const STD06_META: &str = r#"meta {
    unknown: 0,
    stage_name: "dm",
    bgm: [{path: "a.mid", name: "dm"}, {path: " ", name: " "}, {path: " ", name: " "}, {path: " ", name: " "}],
    objects: {},
    instances: [],
}
"#;
const STD12_META: &str = r#"meta {
    unknown: 0,
    anm_path: "stage01.anm",
    objects: {thing: {layer: 4, pos: [1.0, 2.0, 3.0], size: [1.0, 2.0, 3.0], quads: [rect {anm_script: 3, pos: [1.0, 2.0, 3.0], size: [4.0, 5.0]}]}},
    instances: [thing {pos: [4.0, 5.0, 6.0]}],
}
"#;
const MSG06_META: &str = "meta {\n    table: {0: {script: \"main\"}},\n}\n";
const MSG09_META: &str = "meta {\n    table: {0: {script: \"main\", flags: 256}},\n}\n";

/// Test instructions 2000.. used by the generated bodies (same shape in every language).
fn test_map(kind: Kind) -> String { test_map_for(kind, false) }
/// `fixed12`: EoSD-format STD instructions always carry 12 bytes of arguments
fn test_map_for(kind: Kind, fixed12: bool) -> String {
    if fixed12 { return "!stdmap\n!ins_signatures\n2000 S__\n2001 f__\n2002 SS_\n2003 z(bs=12)\n2004 ___\n2005 Sf_\n!ins_names\n2000 takeInt\n2001 takeFloat\n".into(); }
    let magic = match kind { Kind::Anm => "!anmmap", Kind::Std => "!stdmap", Kind::Msg => "!msgmap", Kind::End => "!endmap", Kind::Ecl => "!eclmap", Kind::Mission => "!msgmap" };
    let mut s = format!("{magic}\n!ins_signatures\n2000 S\n2001 f\n2002 SS\n2003 z(bs=4)\n2004 \n2005 Sf\n!ins_names\n2000 takeInt\n2001 takeFloat\n");
    if kind == Kind::Ecl { s += "!timeline_ins_signatures\n2000 S\n2001 f\n2004 \n"; }
    s
}

#[derive(Clone, Copy, PartialEq)]
struct Tpl { key: &'static str, kind: Kind, game: &'static str, head: &'static str, open: &'static str, close: &'static str, ireg: i32, freg: i32 }

const TPLS: &[Tpl] = &[
    Tpl { key: "anm12", kind: Kind::Anm, game: "th12", head: ANM_ENTRY, open: "script script0 {\n", close: "}\n", ireg: 10000, freg: 10004 },
    Tpl { key: "ecl08", kind: Kind::Ecl, game: "th08", head: "script timeline0 {}\n", open: "void sub0() {\n", close: "}\n", ireg: 10000, freg: 10016 },
    Tpl { key: "ecl06", kind: Kind::Ecl, game: "th06", head: "script timeline0 {}\n", open: "void sub0() {\n", close: "}\n", ireg: -10001, freg: -10005 },
    Tpl { key: "std12", kind: Kind::Std, game: "th12", head: STD12_META, open: "script main {\n", close: "}\n", ireg: 0, freg: 0 },
    Tpl { key: "msg12", kind: Kind::Msg, game: "th12", head: MSG09_META, open: "script main {\n", close: "}\n", ireg: 0, freg: 0 },
    Tpl { key: "anm06", kind: Kind::Anm, game: "th06", head: ANM_ENTRY, open: "script script0 {\n", close: "}\n", ireg: 0, freg: 0 },
    Tpl { key: "anm16", kind: Kind::Anm, game: "th16", head: ANM_ENTRY, open: "script script0 {\n", close: "}\n", ireg: 10000, freg: 10004 },
    Tpl { key: "ecl07", kind: Kind::Ecl, game: "th07", head: "script timeline0 {}\n", open: "void sub0() {\n", close: "}\n", ireg: 10000, freg: 10004 },
    Tpl { key: "std06", kind: Kind::Std, game: "th06", head: STD06_META, open: "script main {\n", close: "}\n", ireg: 0, freg: 0 },
    Tpl { key: "msg06", kind: Kind::Msg, game: "th06", head: MSG06_META, open: "script main {\n", close: "}\n", ireg: 0, freg: 0 },
    Tpl { key: "end10", kind: Kind::End, game: "th10", head: MSG06_META, open: "script main {\n", close: "}\n", ireg: 0, freg: 0 },
    Tpl { key: "ecl10", kind: Kind::Ecl, game: "th10", head: "meta {\n    ecli: [],\n    anim: [],\n}\n", open: "void main() {\n", close: "}\n", ireg: -10000, freg: -9988 },
    Tpl { key: "tl08", kind: Kind::Ecl, game: "th08", head: "", open: "script timeline0 {\n", close: "}\nvoid sub0() {}\n", ireg: 0, freg: 0 },
];
fn tpl(key: &str) -> Tpl { *TPLS.iter().find(|t| t.key == key).unwrap_or_else(|| panic!("no template {key}")) }
impl Tpl {
    fn tool(&self) -> Tool { tool(self.kind, self.game) }
    fn wrap(&self, body: &str) -> String { format!("{}{}{}{}", self.head, self.open, body, self.close) }
    fn map(&self) -> String { test_map_for(self.kind, self.key == "std06") }
    fn case(&self, body: &str, desc: impl Into<String>) -> Case { Case::new(self.tool(), self.wrap(body), &[&self.map()], desc) }
    fn has_regs(&self) -> bool { self.ireg != 0 }
}

struct Seed { name: &'static str, kind: Kind, game: &'static str, src: String, map: Option<String> }

const ECL_NAMES_06: &str = "!eclmap\n!ins_names\n0 nop\n!gvar_names\n-10001 I0\n-10002 I1\n-10005 F0\n-10006 F1\n!difficulty_flags\n0 E-\n1 N-\n2 H-\n3 L-\n";
const ECL_NAMES_08: &str = "!eclmap\n!ins_names\n0 nop\n!gvar_names\n10000 I0\n10001 I1\n10016 F0\n10017 F1\n!difficulty_flags\n0 E-\n1 N-\n2 H-\n3 L-\n";
const ANM_NAMES: &str = "!anmmap\n!ins_names\n0 nop\n!gvar_names\n10000 I0\n10001 I1\n10004 F0\n10005 F1\n";

fn seeds() -> Vec<Seed> {
    let mut v = vec![];
    let mut add = |name: &'static str, kind: Kind, game: &'static str, src: String, map: Option<&str>| v.push(Seed { name, kind, game, src, map: map.map(String::from) });
    // ---- truanm
    add("anm06-basic", Kind::Anm, "th06", format!("{ANM_ENTRY}script 5 script0 {{\n    ins_1(@blob=\"01000000\");\n10:\n    ins_2(1.0, 2.0);\n    ins_0();\n}}\n"), None);
    add("anm06-jump", Kind::Anm, "th06", format!("{ANM_ENTRY}script script0 {{\n    ins_1(sprite0);\nlabel:\n+5:\n    ins_2(1.0, 2.0);\n    goto label;\n}}\nscript script1 {{\n    ins_15();\n}}\n"), None);
    add("anm12-expr", Kind::Anm, "th12", format!("{ANM_ENTRY}script script0 {{\n    int x = 3;\n    $REG[10000] = x * 2 + $REG[10001];\n+5:\n    if ($REG[10000] > 3) {{ %REG[10004] = 1.5; }} else {{ goto end; }}\n    times(3) {{ ins_1(); }}\nend:\n}}\n"), None);
    add("anm12-names", Kind::Anm, "th12", format!("{ANM_ENTRY}script -3 script0 {{\n    ins_3(sprite0);\ninterrupt[1]:\n    F0 = sin(F1) * 2.0;\n    loop {{\n+10:\n        nop();\n        if (I0 == 0) break;\n        I0 -= 1;\n    }}\n}}\nscript script1 {{\n    ins_88(script0);\n}}\n"), Some(ANM_NAMES));
    add("anm16-float", Kind::Anm, "th16", format!("{ANM_ENTRY}script script0 {{\n    float y = %REG[10004] + 1.0;\n    %REG[10005] = (y * 2.0) - (y / 3.0);\n    while ($REG[10000] < 10) {{ $REG[10000] += 1; }}\n-1:\n    ins_1();\n}}\n"), None);
    add("anm12-const", Kind::Anm, "th12", format!("const int N = 2 + 3;\n{ANM_ENTRY}script script0 {{\n    ins_6(N, $REG[10001]);\n    ins_7(1.0:2.0, rad(3.0));\n    unless (N != 5) {{ ins_0(); }}\n}}\n").replace("1.0:2.0", "1.5"), None);
    add("anm12-two-entries", Kind::Anm, "th12", format!("{ANM_ENTRY}script 3 first {{\n    ins_3(sprite0);\n}}\nentry {{\n    path: \"other.png\",\n    has_data: false,\n    img_width: 16, img_height: 16, img_format: 1,\n    sprites: {{other0: {{x: 1.0, y: 2.0, w: 3.0, h: 4.0}}}},\n}}\nscript second {{\n    ins_3(other0);\n    ins_88(first);\n}}\n"), None);
    add("anm16-jumps", Kind::Anm, "th16", format!("{ANM_ENTRY}script script0 {{\nl:\n    ins_200(offsetof(l), timeof(l));\ninterrupt[2]:\n-5:\n    goto l @ 10;\n    $REG[10000] = $REG[10000] % 7;\n}}\n"), None);
    // ---- trustd
    add("std06-basic", Kind::Std, "th06", format!("{STD06_META}script main {{\n    ins_0(1.0, 2.0, 3.0);\n10:\n    ins_3(@blob=\"01000000 02000000 03000000\");\n}}\n"), None);
    add("std06-loop", Kind::Std, "th06", format!("{STD06_META}script main {{\n    ins_1(0x10, 20.0, 30.0);\n+100:\n    ins_2(1.0, 2.0, 3.0);\n-5:\n    ins_4(1);\n}}\n"), None);
    add("std12-basic", Kind::Std, "th12", format!("{STD12_META}script main {{\n    ins_2(1.0, 2.0, 3.0);\n10:\n    ins_3(60, 1, 1.0, 2.0, 3.0);\n30:\n    ins_0();\n}}\n"), None);
    add("std12-loop", Kind::Std, "th12", format!("{STD12_META}script main {{\n    loop {{\n        ins_7(0.5);\n    +30:\n        ins_0();\n    }}\n}}\n"), None);
    add("std12-interrupt", Kind::Std, "th12", format!("{STD12_META}script main {{\n    ins_7(0.5);\ninterrupt[1]:\n+60:\n    ins_8(0xff102030, 100.0, 200.0);\nend:\n    goto end;\n}}\n"), None);
    // ---- trumsg
    add("msg06-basic", Kind::Msg, "th06", format!("meta {{\n    table: {{0: {{script: \"script0\"}}, 3: {{script: \"other\"}}, default: {{script: \"script0\"}}}},\n}}\nscript script0 {{\n    ins_1(0, 2);\n10:\n    ins_3(0, 1, \"hello\");\n    ins_0();\n}}\nscript other {{\n    ins_4(42);\n}}\n"), None);
    add("msg09-basic", Kind::Msg, "th09", format!("{MSG09_META}script main {{\n    ins_1(@blob=\"01000200\");\n+60:\n    ins_16(\"text\");\n    ins_0();\n}}\n"), None);
    add("msg12-basic", Kind::Msg, "th12", format!("meta {{\n    table_len: 4,\n    table: {{0: {{script: \"main\", flags: 256}}, default: {{script: \"main\", flags: 3}}}},\n}}\nscript main {{\n    ins_2();\n5:\n    ins_17(\"line one\");\n    ins_0();\n}}\n"), None);
    add("end10-basic", Kind::End, "th10", format!("{MSG06_META}script main {{\n    ins_3(\"a line\");\n+30:\n    ins_5(1);\n    ins_0();\n}}\n"), None);
    add("msg06-escapes", Kind::Msg, "th06", format!("meta {{\n    table: {{1: {{script: \"b\"}}, 0: {{script: \"a\"}}}},\n}}\nscript a {{\n    ins_3(0, 0, \"he said \\\"hi\\\"\\n\");\n    ins_8(1, 0, \"日本語\");\n}}\nscript b {{\n-1:\n    ins_0();\n}}\n"), None);
    add("mission095", Kind::Mission, "th095", "entry { stage: 1, scene: 2, face: 3, point: 4, text: [\"abc\", \"\", \"line three\"] }\nentry { stage: 10, scene: 6, face: 0, point: 1234567, text: [\"x\", \"y\", \"z\"] }\n".into(), None);
    add("mission125", Kind::Mission, "th125", "entry { stage: 1, scene: 2, player: 1, unknown_1: 7, unknown_2: 9, point_1: 3, point_2: 4,\n        furigana: [[1, 2], [3, 4], [5, 6]], text: [\"abc\", \"\", \"line three\", \"d\", \"e\", \"f\"] }\n".into(), None);
    // ---- truecl (olde)
    add("ecl06-subs", Kind::Ecl, "th06", "script timeline0 {\n    ins_0(@arg0=1, @blob=\"00000000 0000803f 00000040 04000300 02000000\");\n10:\n    ins_10(@arg0=0, @blob=\"01000000 02000000\");\n}\nvoid sub0() {\n    ins_0();\n5:\n    {\"2\"}: ins_4(@blob=\"10270000 05000000\");\n    {\"*\"}: ins_1(@blob=\"00000000\");\n}\nvoid sub1() {\n20:\n    ins_35(@blob=\"00000000 00000000 00000000\");\n}\n".into(), None);
    add("ecl06-expr", Kind::Ecl, "th06", "script timeline0 {}\nvoid sub0() {\n    int a = I0 + 2;\n    F0 = (F1 + 1.0) * 2.0;\n    I1 = 3:4:5:6;\n    {\"EN\"}: nop();\n    if (a < 5) { I0 = a; } else if (a == 7) { goto out; } else { I0 = -a; }\nout:\n    sub1(3, 1.5);\n}\nvoid sub1(int x, float y) {\n    I1 = x;\n    F1 = y;\n}\n".into(), Some(ECL_NAMES_06));
    add("ecl06-timeline", Kind::Ecl, "th06", "script timeline0 {\n    ins_0(sub0, 1.0, 2.0, 3.0, 4, 5, 6);\n+30:\n    ins_2(sub1, 1.0, 2.0, 3.0, 4, 5, 6);\n    ins_10(1, 2);\n}\nvoid sub0() {\n    loop { +1: nop(); }\n}\nvoid sub1() {\n    times(I1 = 4) { I0 += 1; }\n}\n".into(), Some(ECL_NAMES_06));
    add("ecl06-cmp", Kind::Ecl, "th06", "script timeline0 {}\nvoid sub0() {\nlabel:\n    ins_27($REG[-10001], 5);\n    ins_29(timeof(label), offsetof(label));\n    {\"0\"}: ins_0();\n    while ($REG[-10002] >= 1) { $REG[-10002] -= 1; }\n    unless (%REG[-10005] == 0.0) goto label @ 3;\n}\n".into(), None);
    add("ecl07-basic", Kind::Ecl, "th07", "script timeline0 {\n    ins_0(sub0, 1.0, 2.0, 3.0, 4, 5, 6);\n}\nscript timeline1 {\n7:\n    ins_11(4);\n}\nvoid sub0() {\n    $REG[10000] = $REG[10001] * 3 - 1;\n    %REG[10004] = cos(%REG[10005]);\n    {\"1\"}: ins_0();\n    do { $REG[10000] -= 1; } while ($REG[10000] > 0);\n}\n".into(), None);
    add("ecl07-call", Kind::Ecl, "th07", "script timeline0 {}\nvoid sub0() {\n    int i = 2;\n    float f = 0.5 + %REG[10004];\n    sub1(i, f);\n}\nvoid sub1(int a, float b) {\n    $REG[10000] = a;\n    %REG[10004] = b;\n}\n".into(), None);
    add("ecl08-expr", Kind::Ecl, "th08", "script timeline0 {}\nvoid sub0() {\n    int a = I0 + 2;\n    F0 = (F1 + 1.0) * 2.0;\n    I1 = 3:4:5:6;\n    {\"H\"}: nop();\n    if (a < 5 && I1 != 0) { I0 = a; } else { I0 = a > 3 ? 1 : 2; }\n    I0 = -I1 + (a % 2);\n}\n".into(), Some(ECL_NAMES_08));
    add("ecl08-timeline", Kind::Ecl, "th08", "script 1 second {\n    ins_0(sub0, 1.0, 2.0, 4, 5, 6);\n10:\n    ins_9(3);\n}\nscript 0 first {\n    ins_16();\n}\nvoid sub0() {\nagain:\n    ins_0();\n+8:\n    if ($REG[10000] != 0) goto again;\n    sub1();\n}\nvoid sub1() {}\n".into(), None);
    add("ecl08-call", Kind::Ecl, "th08", "script timeline0 {}\nconst float K = 1.5;\nvoid sub0() {\n    sub1(1, 2, K, $REG[10000]);\n    times(3) { sub1(0, 0, 0.0, 0); }\n}\nvoid sub1(int a, int b, float c, int d) {\n    $REG[10000] = a + b + d;\n    %REG[10016] = c;\n}\n".into(), None);
    add("ecl10-basic", Kind::Ecl, "th10", "meta {\n    ecli: [\"a.ecl\"],\n    anim: [\"b.anm\"],\n}\nvoid main() {\n    ins_40(8);\n10:\n    ins_17(3);\n    ins_10();\n}\nvoid other() {\n    ins_20(1, 2);\n+5:\n    ins_1();\n}\n".into(), None);
    add("ecl08-loops", Kind::Ecl, "th08", "script timeline0 {}\nvoid sub0() {\n    float f = 1.0;\n    int n = 0;\n    while (n < 3) { n += 1; f *= 2.0; }\n    do { n -= 1; } while (n > 0);\n    unless (f >= 4.0) { %REG[10016] = f; }\n    times(n = 2) { $REG[10000] = n; }\n}\n".into(), None);
    v
}

// =============================================================================================
// (ii) token edits

/// A deliberately simple lexer: only the granularity of the edits depends on it.
fn lex(src: &str) -> Vec<(usize, usize)> {
    let b = src.as_bytes();
    let mut out = vec![];
    let mut i = 0;
    const OPS: &[&str] = &[">>>=", "<<=", ">>=", ">>>", "...", "==", "!=", "<=", ">=", "<<", ">>", "&&", "||", "++", "--", "+=", "-=", "*=", "/=", "%=", "|=", "&=", "^="];
    while i < b.len() {
        let c = b[i];
        if c.is_ascii_whitespace() { i += 1; continue; }
        if c == b'/' && b.get(i + 1) == Some(&b'/') { while i < b.len() && b[i] != b'\n' { i += 1; } continue; }
        if c == b'/' && b.get(i + 1) == Some(&b'*') { i += 2; while i < b.len() && !(b[i] == b'*' && b.get(i + 1) == Some(&b'/')) { i += 1; } i = (i + 2).min(b.len()); continue; }
        let s = i;
        if c == b'"' {
            i += 1;
            while i < b.len() && b[i] != b'"' { if b[i] == b'\\' { i += 1; } i += 1; }
            i = (i + 1).min(b.len());
        } else if c.is_ascii_digit() {
            while i < b.len() && (b[i].is_ascii_alphanumeric() || b[i] == b'_') { i += 1; }
            if i + 1 < b.len() && b[i] == b'.' && (b[i + 1].is_ascii_digit() || b[i + 1] == b'f') { i += 1; while i < b.len() && b[i].is_ascii_alphanumeric() { i += 1; } }
        } else if c.is_ascii_alphabetic() || c == b'_' {
            while i < b.len() && (b[i].is_ascii_alphanumeric() || b[i] == b'_') { i += 1; }
            if &src[s..i] == "rad" && b.get(i) == Some(&b'(') {
                if let Some(e) = src[i..].find(')') { if src[i + 1..i + e].bytes().all(|x| x.is_ascii_digit() || b".-+f".contains(&x)) { i += e + 1; } }
            }
        } else if c >= 0x80 {
            while i < b.len() && b[i] >= 0x80 { i += 1; }
        } else if let Some(op) = OPS.iter().find(|op| src[i..].starts_with(**op)) {
            i += op.len();
        } else { i += 1; }
        out.push((s, i));
    }
    out
}

const REPL: &[&str] = &[
    // the quick subset comes first
    ";", "{", "}", "(", ":", "@", "-", "2147483648", "\"s\"", "ins_65536", "$REG[10000]", "x",
    ")", ",", "#", "$", "%", "+", "=", "==", "0", "-1", "4294967296", "0x100000000", "1.0", "99999999999999999999.0", "\"\"",
    "ins_0", "ins_99999999999", "REG[0]", "REG[-2147483648]", "int", "float", "void", "const", "if", "else", "goto", "loop", "times", "break",
    "offsetof(x)", "timeof(x)", "rad(1.0)", "INF", "NAN", "sprite0", "script0", "interrupt[1]:", "+5:", "{\"*\"}:", "!ENH", "[", "]", "?", ".", "async", "return", "while", "1e39", "entry", "meta", "script",
];
const REPL_QUICK: usize = 12;

fn tok_cases(seed_ix: usize, op: &str, seeds: &[Seed]) -> Vec<Case> {
    let s = &seeds[seed_ix];
    let src = &s.src;
    let toks = lex(src);
    let t = tool(s.kind, s.game);
    let maps: Vec<&str> = s.map.iter().map(|m| m.as_str()).collect();
    let mk = |text: String, desc: String| Case::new(t, text, &maps, desc);
    let mut out = vec![];
    let parts: Vec<&str> = op.split('=').collect();
    match parts[0] {
        "del" => for (i, &(a, b)) in toks.iter().enumerate() { out.push(mk(format!("{}{}", &src[..a], &src[b..]), format!("{}: delete token {i} `{}`", s.name, &src[a..b]))); },
        "dup" => for (i, &(a, b)) in toks.iter().enumerate() { out.push(mk(format!("{} {}{}", &src[..b], &src[a..b], &src[b..]), format!("{}: duplicate token {i} `{}`", s.name, &src[a..b]))); },
        "swap" => for i in 0..toks.len().saturating_sub(1) {
            let ((a, b), (c, d)) = (toks[i], toks[i + 1]);
            out.push(mk(format!("{}{}{}{}{}", &src[..a], &src[c..d], &src[b..c], &src[a..b], &src[d..]), format!("{}: swap tokens {i},{} `{}` `{}`", s.name, i + 1, &src[a..b], &src[c..d])));
        },
        "rep" => { let r = REPL[parts[1].parse::<usize>().unwrap()];
            for (i, &(a, b)) in toks.iter().enumerate() { out.push(mk(format!("{}{}{}", &src[..a], r, &src[b..]), format!("{}: replace token {i} `{}` by `{r}`", s.name, &src[a..b]))); } },
        "del2" => for i in 0..toks.len() { for j in i + 1..toks.len() {
            let ((a, b), (c, d)) = (toks[i], toks[j]);
            out.push(mk(format!("{}{}{}", &src[..a], &src[b..c], &src[d..]), format!("{}: delete tokens {i},{j}", s.name)));
        } },
        _ => panic!("bad token op {op}"),
    }
    out
}

// =============================================================================================
// (iii) byte edits

const BYTE_INS: &[&[u8]] = &[b"\x00", b"\xff", b"\"", b"\\", b"{", b"}", b"(", b")", b"/", b"*", b":", b";", b"@", b"#", "é".as_bytes(), "日".as_bytes(), b"\xc3"];

fn smallest_seeds(seeds: &[Seed], n: usize) -> Vec<usize> {
    let mut ix: Vec<usize> = (0..seeds.len()).collect();
    ix.sort_by_key(|&i| (seeds[i].src.len(), i));
    ix.truncate(n);
    ix
}

fn byte_cases(seed_ix: usize, op: &str, seeds: &[Seed], thorough: bool) -> Vec<Case> {
    let s = &seeds[seed_ix];
    let src = s.src.as_bytes();
    let t = tool(s.kind, s.game);
    let maps: Vec<&str> = s.map.iter().map(|m| m.as_str()).collect();
    let step = if thorough { 1 } else { 3 };
    let mut out = vec![];
    if op == "trunc" {
        for i in (0..src.len()).step_by(step) { out.push(Case::new(t, &src[..i], &maps, format!("{}: truncate at byte {i}", s.name))); }
    } else {
        let ins = BYTE_INS[op.parse::<usize>().unwrap()];
        for i in (0..=src.len()).step_by(step) {
            let mut v = src[..i].to_vec(); v.extend_from_slice(ins); v.extend_from_slice(&src[i..]);
            out.push(Case::new(t, v, &maps, format!("{}: insert bytes {} at offset {i}", s.name, hex(ins))));
        }
    }
    out
}

// =============================================================================================
// (iv) extreme literals

const LIT_CHUNK: usize = 4;
const LIT_TPLS: &[&str] = &["anm12", "ecl08", "ecl06", "std12", "msg12", "anm06", "end10", "tl08", "ecl10"];

fn rep(s: &str, n: usize) -> String { s.repeat(n) }

fn lit_cases(key: &str) -> Vec<Case> {
    if key == "mission095" { return lit_mission(); }
    let t = tpl(key);
    let mut bodies: Vec<(String, String)> = vec![]; // (label, body)
    let ints: Vec<(String, String)> = [
        "2147483647", "2147483648", "4294967295", "4294967296", "0x100000000", "0xFFFFFFFF", "0x7fffffff", "0x", "0b", "0b2", "1_000",
        "00000000000000000000001", "-2147483648", "-2147483649", "-4294967296", "- 2147483648", "18446744073709551616", "99999999999999999999",
    ].iter().map(|x| (x.to_string(), x.to_string())).chain([
        ("0b + 40 ones".to_string(), format!("0b{}", rep("1", 40))), ("0b + 32 ones".to_string(), format!("0b{}", rep("1", 32))),
        ("5000-digit int".to_string(), rep("9", 5000)), ("0x + 5000 f".to_string(), format!("0x{}", rep("f", 5000))),
    ]).collect();
    for (l, x) in &ints {
        bodies.push((format!("int literal {l} as argument"), format!("ins_2000({x});")));
        bodies.push((format!("int literal {l} in a constant expression"), format!("ins_2000({x} + 0);")));
    }
    let floats: Vec<(String, String)> = [
        "99999999999999999999.0", "340282350000000000000000000000000000000.0", "340282360000000000000000000000000000000.0", "1.0f", "1.f", "1f", "-0.0",
        "1.", ".5", "1e39", "1.0e39", "INF", "-INF", "NAN", "-NAN", "rad(99999999999999999999.0)", "rad(-1)", "rad(+1.5f)", "rad()", "rad(1.0.0)", "rad(--1)", "rad(1e5)",
    ].iter().map(|x| (x.to_string(), x.to_string())).chain([
        ("5000-digit float".to_string(), format!("1{}.0", rep("0", 5000))), ("tiny 5000-digit float".to_string(), format!("0.{}1", rep("0", 5000))),
        ("5000-digit rad()".to_string(), format!("rad(1{}.0)", rep("0", 5000))),
    ]).collect();
    for (l, x) in &floats {
        bodies.push((format!("float literal {l} as argument"), format!("ins_2001({x});")));
        bodies.push((format!("float literal {l} cast to int"), format!("ins_2000(int({x}));")));
    }
    for st in [
        "ins_65535();", "ins_65536();", "ins_4294967296();", "ins_99999999999999999999();", "ins_00();", "ins_();", "ins_1x();", "ins_-1();", "ins_0x10();", "ins_2004(@blob=\"\");",
        "ins_2000(@mask=4294967296, 1);", "ins_2000(@mask=-1, 1);", "ins_2000(@mask=65536, 1);", "ins_2000(@mask=2147483648, 1);", "ins_2000(@mask=1.0, 1);", "ins_2000(@mask=\"s\", 1);",
        "ins_2000(@mask=1, @mask=2, 1);", "ins_2004(@blob=\"zz\");", "ins_2004(@blob=\"0\");", "ins_2004(@blob=\"00\");", "ins_2000(@blob=\"00000000\");", "ins_2004(@blob=1);",
        "ins_2000(@blob=\"00000000\", 1);", "ins_2000(@blob=\"00000000\", @blob=\"00000000\");", "ins_2004(@blob=\"00 00 00 00\");", "ins_2004(@blob=\"0000000g\");", "ins_2004(@blob=\"日本\");",
        "ins_2004(@arg0=65536);", "ins_2004(@arg0=-1);", "ins_2004(@arg0=1.0);", "ins_2004(@arg0=4294967296);", "ins_2004(@nargs=1);", "ins_2004(@nargs=4294967296);", "ins_2004(@pop=1);", "ins_2004(@pop=-1);", "ins_2004(@bogus=1);",
        "ins_2003(\"\\\\\");", "ins_2003(\"\\n\");", "ins_2003(\"\\0\");", "ins_2003(\"\\x\");", "ins_2003(\"\\u{1F600}\");", "ins_2003(\"\\\");", "ins_2003(\"日本\");", "ins_2003(\"😀\");", "ins_2003(\"\");", "ins_2003(\"a\\\n\");",
        "ins_2000(2147483647 + 1);", "ins_2000(-2147483648 - 1);", "ins_2000(2147483647 * 2);", "ins_2000(-2147483648 / -1);", "ins_2000(-2147483648 % -1);", "ins_2000(1 / 0);", "ins_2000(1 % 0);",
        "ins_2000(1 << 32);", "ins_2000(1 << -1);", "ins_2000(1 >> 32);", "ins_2000(1 >>> 33);", "ins_2000(-(-2147483648));", "ins_2000(~(-1));", "ins_2000(int(99999999999999999999.0) + 1);", "ins_2000(int(NAN));", "ins_2000(int(-INF));",
        "ins_2001(float(2147483647));", "ins_2001(sqrt(-1.0));", "ins_2001(1.0 / 0.0);", "ins_2001(1.0 % 0.0);", "ins_2001(sin(INF));", "ins_2001(acos(2.0));", "ins_2000(1 == 1.0);", "ins_2000(1 ? 2 : 3);",
        "ins_2000(1:2:3:4:5:6:7:8:9);", "ins_2000(::1);", "ins_2000(1::);", "ins_2000(:);", "ins_2000(offsetof(nolabel));", "ins_2000(timeof(l));\nl:", "ins_2000(offsetof(l) + 2147483647);\nl:",
        "const int x = 2147483647 + 1;\nins_2000(x);", "const string s = \"a\";\nins_2003(s);", "const float f = 1.0 / 0.0;\nins_2001(f);", "const int a = a;\nins_2000(a);", "const int a = b;\nconst int b = a;\nins_2000(a);", "const int a = 1, a = 2;",
    ] { bodies.push((format!("statement `{}`", st.chars().take(60).collect::<String>()), st.to_string())); }
    for lab in ["2147483647:", "2147483648:", "4294967295:", "4294967296:", "+2147483648:", "+4294967296:", "-2147483648:", "-2147483649:", "+(-1):", "+(2147483647 + 1):", "+1.0:", "+x:", "+(1/0):",
        "65536:", "32768:", "-32769:", "2147483647:\n+1:", "-2147483648:\n+(-1):", "+2147483647:\n+2147483647:", "1.0:", "0x10:", "+:", "--1:", "+\"s\":"] {
        bodies.push((format!("time label `{}`", lab.replace('\n', " ")), format!("{lab}\n    ins_2004();")));
    }
    bodies.push(("100 KB string literal".into(), format!("ins_2003(\"{}\");", rep("a", 100_000))));
    bodies.push(("100 KB string literal of 3-byte characters".into(), format!("ins_2003(\"{}\");", rep("日", 33_334))));
    bodies.push(("100 KB blob".into(), format!("ins_2004(@blob=\"{}\");", rep("00", 50_000))));
    bodies.push(("100 KB identifier".into(), format!("ins_2000({});", rep("a", 100_000))));
    bodies.push(("100 KB comment".into(), format!("/*{}*/ ins_2004();", rep("*", 100_000))));
    bodies.push(("10 000 statements".into(), rep("ins_2004();\n", 10_000)));
    bodies.push(("10 000 labels".into(), (0..10_000).map(|i| format!("l{i}:\n")).collect()));
    bodies.push(("10 000 time labels".into(), rep("+1:\nins_2004();\n", 10_000)));
    bodies.push(("1 000 const declarations".into(), (0..1000).map(|i| format!("const int c{i} = {i};\n")).collect::<String>() + "ins_2000(c999);"));
    bodies.push(("10 000 arguments".into(), format!("ins_2000({}1);", rep("1, ", 9_999))));
    if t.has_regs() {
        let (r, f) = (format!("$REG[{}]", t.ireg), format!("%REG[{}]", t.freg));
        for st in [
            "$REG[-2147483648] = 1;".to_string(), "$REG[2147483648] = 1;".into(), "$REG[4294967295] = 1;".into(), "$REG[4294967296] = 1;".into(), "$REG[-2147483649] = 1;".into(), "$REG[- 1] = 1;".into(), "$REG[99999] = 1;".into(),
            "ins_2000($REG[-2147483648]);".into(), "ins_2000($REG[99999]);".into(), "ins_2000(REG[99999]);".into(), format!("%REG[{}] = 1.0;", t.ireg), format!("ins_2000(%REG[{}]);", t.ireg), format!("ins_2001($REG[{}]);", t.freg),
            format!("{r} = {r} / 0;"), format!("{r} = -2147483648 / {r};"), format!("{r} = {r} % 0;"), format!("{f} = {f} / 0.0;"), format!("{r} = 2147483647 + 1 + {r};"), format!("{r} += 2147483648;"), format!("{r} = 4294967295;"),
            "times(4294967296) { ins_2004(); }".into(), "times(-1) { ins_2004(); }".into(), "times(2147483648) { ins_2004(); }".into(), "times(0) { ins_2004(); }".into(), "times(1.5) { ins_2004(); }".into(), format!("times({r} = 2147483648) {{ ins_2004(); }}"),
            "goto l @ 2147483648;\nl:".into(), "goto l @ -2147483649;\nl:".into(), "goto l @ 65536;\nl:".into(), "int x = 2147483648;\nins_2000(x);".into(), "float x = 99999999999999999999.0;\nins_2001(x);".into(),
            format!("{r} = {};", rep("9", 5000)), format!("{f} = 1{}.0;", rep("0", 5000)),
        ] { bodies.push((format!("statement `{}`", st.chars().take(60).collect::<String>().replace('\n', " ")), st)); }
        bodies.push(("1 000 locals".into(), (0..1000).map(|i| format!("int v{i} = {r};\n")).collect()));
        bodies.push(("10 000 assignments".into(), rep(&format!("{r} = {r} + 1;\n"), 10_000)));
    }
    let mut out: Vec<Case> = bodies.into_iter().map(|(l, b)| t.case(&format!("    {b}\n"), format!("{key}: {l}"))).collect();
    // numbers in item headers
    for n in ["2147483647", "2147483648", "4294967295", "4294967296", "-2147483648", "-2147483649", "65536", "-1", "0x10", "1.0", "5000"] {
        let n = if n == "5000" { rep("9", 5000) } else { n.to_string() };
        out.push(Case::new(t.tool(), format!("{}script {n} extra {{}}\n", t.wrap("")), &[&test_map(t.kind)], format!("{key}: script number {}", n.chars().take(20).collect::<String>())));
    }
    // extreme values in metadata
    let needles: &[&str] = match t.key {
        "anm12" | "anm06" => &["img_width: 512", "img_format: 3", "id: 0", "x: 0.0", "has_data: false", "path: \"subdir/file.png\""],
        "std12" => &["unknown: 0", "layer: 4", "anm_script: 3", "pos: [1.0, 2.0, 3.0]", "anm_path: \"stage01.anm\""],
        "msg12" | "end10" => &["0: {script", "script: \"main\""],
        _ => &[],
    };
    for needle in needles { for (l, x) in meta_values() {
        let (field, _) = needle.split_once(':').unwrap();
        let new = if needle.ends_with("{script") { format!("{x}: {{script") } else { format!("{field}: {x}") };
        let src = t.wrap("").replacen(needle, &new, 1);
        out.push(Case::new(t.tool(), src, &[&test_map(t.kind)], format!("{key}: metadata `{field}` = {l}")));
    } }
    if t.kind == Kind::Msg || t.kind == Kind::End {
        // integer table keys that denote the same number in different spellings (DESIGN section 5, row 15)
        for dup in ["0", "00", "0x0", "0b0", "-0", "+0", "4294967296", "4294967295", "default", "Default", "0 ", "0.0"] {
            let src = t.wrap("").replacen("}},", &format!("}}, {dup}: {{script: \"main\"}}}},"), 1);
            out.push(Case::new(t.tool(), src, &[&test_map(t.kind)], format!("{key}: second table key `{dup}` next to `0`")));
        }
    }
    if t.key == "msg12" { for (l, x) in meta_values() {
        out.push(Case::new(t.tool(), t.wrap("").replacen("table: {", &format!("table_len: {x},\n    table: {{"), 1), &[], format!("{key}: metadata `table_len` = {l}")));
        out.push(Case::new(t.tool(), t.wrap("").replacen("flags: 256", &format!("flags: {x}"), 1), &[], format!("{key}: metadata `flags` = {l}")));
    } }
    out
}

fn meta_values() -> Vec<(String, String)> {
    let mut v: Vec<(String, String)> = ["2147483647", "2147483648", "4294967295", "4294967296", "-1", "-2147483648", "-2147483649", "65535", "65536", "32768", "1.5", "\"s\"", "NAN", "INF", "true", "$REG[1]", "1 + 1", "1 / 0",
        "2147483647 + 1", "[1]", "{a: 1}", "v {a: 1}", "\"\"", "99999999999999999999.0", "sprite0", "x", "-x", "ins_1()", "offsetof(x)"].iter().map(|x| (x.to_string(), x.to_string())).collect();
    v.push(("5000-digit int".into(), rep("9", 5000)));
    v.push(("5000-digit float".into(), format!("1{}.0", rep("0", 5000))));
    v.push(("100 KB string".into(), format!("\"{}\"", rep("a", 100_000))));
    v
}

fn lit_mission() -> Vec<Case> {
    let base = "entry { stage: 1, scene: 2, face: 3, point: 4, text: [\"abc\", \"\", \"line three\"] }\n";
    let t = tool(Kind::Mission, "th095");
    let mut out = vec![];
    for needle in ["stage: 1", "scene: 2", "face: 3", "point: 4", "text: [\"abc\", \"\", \"line three\"]", "\"abc\""] { for (l, x) in meta_values() {
        let new = match needle.split_once(':') { Some((f, _)) => format!("{f}: {x}"), None => x.clone() };
        out.push(Case::new(t, base.replacen(needle, &new, 1), &[], format!("mission095: `{needle}` -> {l}")));
    } }
    out.push(Case::new(t, rep(base, 10_000), &[], "mission095: 10 000 entries"));
    out.push(Case::new(t, "", &[], "mission095: empty file"));
    out
}

// =============================================================================================
// (v) nesting

const NEST_SHAPES: &[&str] = &[
    "paren", "paren-reg", "neg-paren", "neg-paren-reg", "neg-bare", "not-paren", "not-bare", "cast", "sin", "sin-reg", "binl", "binl-reg", "binr", "binr-reg",
    "block", "if", "ifelse", "elseif", "ternr", "ternl", "ternm", "loop", "times", "while", "dowhile", "diffswitch", "callarg", "funcnest",
    "meta-array", "meta-object", "meta-variant", "comment", "paren-unclosed", "brace-unclosed", "bracket-unclosed", "string-escapes",
];

fn nest_tpls(shape: &str) -> Vec<&'static str> {
    if shape.starts_with("meta-") || shape == "bracket-unclosed" { return vec!["anm12", "std12", "msg12", "mission095"]; }
    if shape.ends_with("-reg") || ["while", "dowhile"].contains(&shape) { return vec!["anm12", "ecl08", "ecl06"]; }
    if shape == "funcnest" { return vec!["ecl08", "anm12"]; }
    vec!["anm12", "ecl08", "ecl06", "std12", "msg12"]
}

fn nest_body(shape: &str, n: usize, t: &Tpl) -> String {
    let r = if t.has_regs() { format!("$REG[{}]", t.ireg) } else { "1".to_string() };
    let f = if t.has_regs() { format!("%REG[{}]", t.freg) } else { "1.0".to_string() };
    let cond = if t.has_regs() { format!("{r} == 0") } else { "1 == 0".to_string() };
    match shape {
        "paren" => format!("ins_2000({}1{});", rep("(", n), rep(")", n)),
        "paren-reg" => format!("{r} = {}{r}{};", rep("(", n), rep(")", n)),
        "neg-paren" => format!("ins_2000({}1{});", rep("-(", n), rep(")", n)),
        "neg-paren-reg" => format!("{r} = {}{r}{};", rep("-(", n), rep(")", n)),
        "neg-bare" => format!("ins_2000({}1);", rep("- ", n)),
        "not-paren" => format!("ins_2000({}{r}{});", rep("!(", n), rep(")", n)),
        "not-bare" => format!("ins_2000({}x);", rep("!", n)),
        "cast" => { let mut e = "1".to_string(); for i in 0..n { e = format!("{}({e})", if (n - i) % 2 == 0 { "float" } else { "int" }); } format!("ins_2000({e});") },
        "sin" => format!("ins_2001({}1.0{});", rep("sin(", n), rep(")", n)),
        "sin-reg" => format!("{f} = {}{f}{};", rep("sin(", n), rep(")", n)),
        "binl" => format!("ins_2000(1{});", rep(" + 1", n)),
        "binl-reg" => format!("{r} = {r}{};", rep(&format!(" + {r}"), n)),
        "binr" => format!("ins_2000({}1{});", rep("1 + (", n), rep(")", n)),
        "binr-reg" => format!("{r} = {}{r}{};", rep(&format!("{r} * ("), n), rep(")", n)),
        "block" => format!("{}ins_2004();{}", rep("{ ", n), rep(" }", n)),
        "if" => format!("{}ins_2004();{}", rep(&format!("if ({cond}) {{ "), n), rep(" }", n)),
        "ifelse" => format!("{}ins_2004();{}", rep(&format!("if ({cond}) {{ ins_2004(); }} else {{ "), n), rep(" }", n)),
        "elseif" => format!("if ({cond}) {{ ins_2004(); }}{}", rep(&format!(" else if ({cond}) {{ ins_2004(); }}"), n)),
        "ternr" => format!("ins_2000({}2);", rep(&format!("{cond} ? 1 : "), n)),
        "ternl" => format!("ins_2000({}{cond}{});", rep("(", n), rep(" ? 1 : 0)", n)),
        "ternm" => format!("ins_2000({}5{});", rep(&format!("{cond} ? "), n), rep(" : 0", n)),
        "loop" => format!("{}ins_2004(); break;{}", rep("loop { ", n), rep(" }", n)),
        "times" => format!("{}ins_2004();{}", rep("times(2) { ", n), rep(" }", n)),
        "while" => format!("{}{r} -= 1;{}", rep(&format!("while ({r} > 0) {{ "), n), rep(" }", n)),
        "dowhile" => format!("{}ins_2004();{}", rep("do { ", n), rep(&format!(" }} while ({r} > 0);"), n)),
        "diffswitch" => format!("ins_2000(1{});", rep(":1", n)),
        "callarg" => format!("ins_2000({}1{});", rep("ins_2000(", n), rep(")", n)),
        "funcnest" => format!("{}{}", (0..n).map(|i| format!("void f{i}() {{ ")).collect::<String>(), rep(" }", n)),
        "comment" => format!("{}{} ins_2004();", rep("/* ", n), rep(" */", n)),
        "paren-unclosed" => format!("ins_2000({}", rep("(", n)),
        "brace-unclosed" => rep("{ ", n),
        "string-escapes" => format!("ins_2003(\"{}\");", rep("\\\\", n)),
        _ => panic!("unknown nesting shape {shape}"),
    }
}

fn nest_meta(shape: &str, n: usize) -> String {
    match shape {
        "meta-array" => format!("{}{}", rep("[", n), rep("]", n)),
        "meta-object" => format!("{}1{}", rep("{a: ", n), rep("}", n)),
        "meta-variant" => format!("{}1{}", rep("v {a: ", n), rep("}", n)),
        "bracket-unclosed" => rep("[", n),
        _ => panic!("unknown meta shape {shape}"),
    }
}

fn nest_cases(shape: &str, key: &str, thorough: bool) -> Vec<Case> {
    let mut depths: Vec<usize> = (0..=8).map(|i| 1usize << i).collect();
    if thorough { depths.push(1024); depths.push(4096); }
    let is_meta = shape.starts_with("meta-") || shape == "bracket-unclosed";
    depths.into_iter().map(|n| {
        let mut c = if is_meta {
            let v = nest_meta(shape, n);
            if key == "mission095" { Case::new(tool(Kind::Mission, "th095"), format!("entry {{ zzz: {v}, stage: 1, scene: 2, face: 3, point: 4, text: [\"abc\", \"\", \"x\"] }}\n"), &[], "") }
            else { let t = tpl(key); let src = t.wrap("").replacen(" {\n", &format!(" {{\n    zzz: {v},\n"), 1); Case::new(t.tool(), src, &[&test_map(t.kind)], "") }
        } else { let t = tpl(key); t.case(&format!("    {}\n", nest_body(shape, n, &t)), "") };
        c.desc = format!("{key}: {shape} nested to depth {n}");
        c.info_only = n > VIOLATION_DEPTH;
        c
    }).collect()
}

// =============================================================================================
// (vi) mapfile texts

const MAP_TPLS: &[&str] = &["anm12", "ecl06", "msg12", "ecl07"];

fn magic_of(kind: Kind) -> &'static str { match kind { Kind::Anm => "!anmmap", Kind::Std => "!stdmap", Kind::Msg | Kind::Mission => "!msgmap", Kind::End => "!endmap", Kind::Ecl => "!eclmap" } }

/// (label, script body) variants a signature for opcode 2000 is exercised with
const SIG_VARIANTS: &[(&str, &str)] = &[
    ("unused", ""), ("no args", "ins_2000();"), ("blob", "ins_2000(@blob=\"00000000 00000000\");"), ("one int", "ins_2000(1);"), ("string", "ins_2000(\"a\");"),
    ("three args", "ins_2000(1, 2.0, 3);"), ("label args", "l:\n    ins_2000(offsetof(l), timeof(l));"), ("two ints", "ins_2000(3, 4);"), ("arg0 pseudo", "ins_2000(@arg0=3, 4);"),
];
const SIG_ALPHABET: &[&str] = &["S", "s", "f", "z", "m", "p", "o", "t", "_", "-", "(", ")", "=", ";", ",", "0", "a", "\""];

fn sig_strings(max_len: usize) -> Vec<String> {
    let mut all = vec![String::new()];
    let mut layer = vec![String::new()];
    for _ in 0..max_len {
        let mut next = vec![];
        for p in &layer { for a in SIG_ALPHABET { next.push(format!("{p}{a}")); } }
        all.extend(next.iter().cloned());
        layer = next;
    }
    all
}

const ATTR_SIGS: &[&str] = &[
    "z(bs=0)", "z(bs=4294967296)", "z(bs=-1)", "z(bs=4)", "z(bs=1)", "z(bs=2147483647)", "m(mask=256,0,0;bs=4)", "m(bs=4;mask=1,2,3)", "m(bs=4)", "m(mask=1,2,3)", "m(bs=4;mask=1,2)", "m(bs=4;mask=1,2,3,4)", "m(bs=4;mask=-1,0,0)",
    "m(bs=0;mask=1,2,3)", "p(len=4)", "p(bs=4)", "p(bs=0)", "p", "z", "z(len=4)", "z(len=0)", "z(len=3;bs=4)", "z(len=4294967296)", "z(len=-1)", "z(bs=4)S", "Sz(bs=4)", "z(bs=4)z(bs=4)",
    "S(enum=\"\")", "S(enum=\"1x\")", "S(enum=\"bool\")", "S(enum=\"NoSuch\")", "S(enum=bool)", "S(enum=1)", "f(enum=\"bool\")", "S(enum=\"a\";enum=\"b\")", "s(arg0)S(arg0)", "S(arg0)", "f(arg0)", "s(arg0)", "u(arg0)", "Ss(arg0)",
    "_s(arg0)S", "-s(arg0)S", "--s(arg0)S", "_u(arg0)", "-b(arg0)S", "s(arg0)_S", "S_s(arg0)", "__s(arg0)", "_s(arg0)", "s(arg0)-", "_S(arg0)", "f_s(arg0)", "_s(arg0;imm)S", "s(imm;arg0)S", "_o", "_t", "_ot", "o_t", "-ot",
    "oo", "ot", "to", "tt", "o", "t", "o(hex)", "S(hex)", "S(imm)", "f(imm)", "S(imm;hex;imm)", "S()", "S(", "S(=)", "S(x=)", "S(x)", "S(bs=4)", "_(imm)", "-(imm)", "z(bs=4;bs=8)", "z(bs=\"4\")", "S(imm=1)",
    "b-", "b---S", "ss-", "sS", "bS", "Sb", "sss", "---", "_", "__", "S_", "C", "c", "N", "n", "E", "U(hex)", "T", "T(imm)", "F", "q", "é", "S S", "S,S", "S;S", "SSSSSSSSSSSSSSSSSSSSSSSSSSSSSSSSS", "S(imm)f(imm)z(bs=4)",
];

const INTRINSICS: &[&str] = &[
    "BinOp()", "BinOp(op=\"?\";type=\"int\")", "BinOp(op=\"+\";type=\"int\")", "BinOp(op=\"+\";type=\"string\")", "BinOp(op=\"+\")", "BinOp(type=\"int\")", "BinOp(op=\"+\";type=\"int\";x=\"y\")", "BinOp(op=\"+\";op=\"-\";type=\"int\")",
    "BinOp(op=\"==\";type=\"float\")", "BinOp(op=\"<<\";type=\"float\")", "BinOp(op=\"&&\";type=\"int\")", "CondJmp(op=\"+\";type=\"int\")", "CondJmp(op=\"==\";type=\"int\")", "CondJmp(op=\"==\";type=\"float\")", "CondJmp(op=\"==\")",
    "CountJmp(op=\"<\")", "CountJmp(op=\"!=\")", "CountJmp(op=\">\")", "CountJmp()", "CountJmp", "Jmp(x)", "Jmp()", "Jmp", "Jmp(", "Jmp)", "Jmp(op=\"+\")", "CallEosd()", "CallReg()", "InterruptLabel()",
    "AssignOp(op=\"=\";type=\"int\")", "AssignOp(op=\"+=\";type=\"float\")", "AssignOp(op=\"+\";type=\"int\")", "AssignOp(op=\"==\";type=\"int\")", "UnOp(op=\"sin\";type=\"int\")", "UnOp(op=\"sin\";type=\"float\")", "UnOp(op=\"-\";type=\"int\")",
    "UnOp(op=\"int\";type=\"float\")", "UnOp(op=\"$\";type=\"int\")", "UnOp(op=\"!\";type=\"float\")", "CondJmp2A(type=\"int\")", "CondJmp2A(type=\"string\")", "CondJmp2B(op=\"==\")", "CondJmp2B(op=\"+\")", "CondJmp2B()",
    "", "garbage", "bin op()", "BinOp(op=+;type=int)", "BinOp(op=\"+\",type=\"int\")", "BinOp(op=\"+\";type=\"int\"", "1", "\"BinOp\"", "BinOp(op=\"\";type=\"\")", "é()", "BinOp(op=\"+\";type=\"int\")BinOp(op=\"+\";type=\"int\")",
];
const INTRINSIC_SIGS: &[&str] = &["", "S", "SS", "SSS", "Sf", "ff", "fff", "ot", "to", "otSS", "SSot", "Sot", "SSto", "o", "S(imm)", "SS(imm)S", "zS"];

fn valid_map(kind: Kind) -> String {
    let mut s = format!("{}\n!ins_names\n2000 takeInt\n2001 takeFloat\n!ins_signatures\n2000 S\n2001 f\n2002 SS(enum=\"Foo\")\n2003 z(bs=4)\n2006 SS\n2007 SSS\n2008 ot\n!ins_intrinsics\n2006 AssignOp(op=\"=\"; type=\"int\")\n2007 BinOp(op=\"+\"; type=\"int\")\n2008 Jmp()\n!gvar_names\n20000 MYVAR\n!gvar_types\n20000 $\n!enum(name=\"Foo\")\n1 apple\n2 pear\n", magic_of(kind));
    if kind == Kind::Ecl { s += "!timeline_ins_names\n2000 tlInt\n!timeline_ins_signatures\n2000 S\n!difficulty_flags\n0 E-\n1 N+\n"; }
    s
}
fn valid_map_body(kind: Kind) -> &'static str {
    if kind == Kind::Msg { "takeInt(3);\n    ins_2002(1, pear);\n    ins_2003(\"abc\");\n" } else { "takeInt(3);\n    ins_2002(1, pear);\n    ins_2003(\"abc\");\nl:\n    MYVAR = MYVAR + 1;\n    goto l;\n" }
}

fn map_cases(sub: &str, key: &str) -> Vec<Case> {
    let t = tpl(key);
    let magic = magic_of(t.kind);
    let mut out: Vec<Case> = vec![];
    let mut push = |body: &str, map: String, desc: String| out.push(Case::new(t.tool(), t.wrap(&format!("    {body}\n")), &[&map], format!("{key}: mapfile {desc}")));
    match sub {
        "num" => {
            let sections: &[(&str, &str)] = &[("ins_names", "foo"), ("ins_signatures", "S"), ("gvar_names", "FOO"), ("gvar_types", "$"), ("ins_intrinsics", "Jmp()"), ("ins_rets", "S"), ("difficulty_flags", "a-"),
                ("enum(name=\"Foo\")", "foo"), ("timeline_ins_names", "foo"), ("timeline_ins_signatures", "S")];
            let nums = ["0", "-1", "2147483647", "2147483648", "-2147483648", "-2147483649", "4294967295", "4294967296", "99999999999", "-99999999999", "65535", "65536", "0x10", "0b1", "1.0", "+5", "1e3", "--1", "-", "١", "１", "007", "-0"];
            for (sec, val) in sections { for n in nums {
                push("", format!("{magic}\n!{sec}\n{n} {val}\n"), format!("number `{n}` in !{sec}"));
                if *sec == "ins_names" { push("foo();", format!("{magic}\n!{sec}\n{n} {val}\n!ins_signatures\n{n} \n"), format!("number `{n}` in !{sec}, then called")); }
                if *sec == "gvar_names" { push("ins_2000(FOO);", format!("{magic}\n!{sec}\n{n} {val}\n!gvar_types\n{n} $\n!ins_signatures\n2000 S\n"), format!("number `{n}` in !{sec}, then read")); }
            } }
        },
        "hdr" => {
            let vm = valid_map(t.kind);
            let texts: Vec<(String, String)> = vec![
                ("empty file".into(), "".into()), ("only a newline".into(), "\n".into()), ("only magic".into(), format!("{magic}\n")), ("magic without newline".into(), magic.to_string()),
                ("no magic".into(), "!ins_names\n1 foo\n".into()), ("missing `!`".into(), format!("{}\n!ins_names\n1 foo\n", &magic[1..])), ("bad magic".into(), "!foomap\n!ins_names\n1 foo\n".into()),
                ("magic `!`".into(), "!\n".into()), ("other language's magic".into(), format!("{}\n!ins_names\n1 foo\n", if t.kind == Kind::Anm { "!eclmap" } else { "!anmmap" })),
                ("gamemap magic".into(), "!gamemap\n!game_files\n12 x.anmm\n".into()), ("BOM before magic".into(), format!("\u{feff}{magic}\n!ins_names\n1 foo\n")), ("space before magic".into(), format!(" {magic}\n")),
                ("magic with trailing text".into(), format!("{magic} x\n")), ("internal timeline magic".into(), "!__noncommittal_internal_name_for_timelinemap__do_not_use\n!ins_names\n1 foo\n".into()),
                ("unknown section".into(), format!("{magic}\n!bogus\n1 foo\n")), ("section given twice".into(), format!("{magic}\n!ins_names\n1 foo\n!ins_names\n2 bar\n")), ("same key twice".into(), format!("{magic}\n!ins_names\n1 foo\n1 bar\n")),
                ("same name twice".into(), format!("{magic}\n!ins_names\n1 foo\n2 foo\n")), ("entry before any section".into(), format!("{magic}\n1 foo\n")), ("key without value".into(), format!("{magic}\n!ins_names\n5\n")),
                ("value without key".into(), format!("{magic}\n!ins_names\nfoo\n")), ("section `!`".into(), format!("{magic}\n!\n")), ("section `!1`".into(), format!("{magic}\n!1\n")), ("section with space".into(), format!("{magic}\n!ins names\n")),
                ("enum()".into(), format!("{magic}\n!enum()\n1 a\n")), ("enum(name=)".into(), format!("{magic}\n!enum(name=)\n1 a\n")), ("enum(name=\"\")".into(), format!("{magic}\n!enum(name=\"\")\n1 a\n")), ("enum(".into(), format!("{magic}\n!enum(\n1 a\n")),
                ("enum(name=\"a\"))".into(), format!("{magic}\n!enum(name=\"a\"))\n1 a\n")), ("enum(name=\"1x\")".into(), format!("{magic}\n!enum(name=\"1x\")\n1 a\n")), ("enum(name=\"a b\")".into(), format!("{magic}\n!enum(name=\"a b\")\n1 a\n")),
                ("enum(name=\"é\")".into(), format!("{magic}\n!enum(name=\"é\")\n1 a\n")), ("enum(nom=\"a\")".into(), format!("{magic}\n!enum(nom=\"a\")\n1 a\n")), ("ins_names(x)".into(), format!("{magic}\n!ins_names(x)\n1 a\n")),
                ("CRLF line ends".into(), vm.replace('\n', "\r\n")), ("CR line ends".into(), vm.replace('\n', "\r")), ("tabs".into(), vm.replace(' ', "\t")), ("no final newline".into(), vm.trim_end().to_string()),
                ("comment lines".into(), vm.replace('\n', " # c\n")), ("NUL byte".into(), vm.replacen("takeInt", "take\0Int", 1)), ("100 KB line".into(), format!("{magic}\n!ins_names\n1 {}\n", rep("a", 100_000))),
                ("10 000-letter signature".into(), format!("{magic}\n!ins_signatures\n2000 {}\n", rep("S", 10_000))), ("10 000 entries".into(), format!("{magic}\n!ins_names\n{}", (0..10_000).map(|i| format!("{i} name{i}\n")).collect::<String>())),
                ("keyword as name".into(), format!("{magic}\n!ins_names\n1 int\n2 if\n3 REG\n4 ins_5\n5 sin\n6 _S\n")), ("name `ins_7` for opcode 8".into(), format!("{magic}\n!ins_names\n8 ins_7\n")), ("unicode name".into(), format!("{magic}\n!ins_names\n1 日本\n")),
                ("name with dash".into(), format!("{magic}\n!ins_names\n1 a-b\n")), ("name with space".into(), format!("{magic}\n!ins_names\n1 a b\n")), ("gvar type garbage".into(), format!("{magic}\n!gvar_types\n1 x\n2 \n3 $$\n4 %\n")),
                ("var and ins share a name".into(), format!("{magic}\n!ins_names\n1 foo\n!gvar_names\n1 foo\n")), ("ins_rets".into(), format!("{magic}\n!ins_rets\n1 S\n2 x\n")),
            ];
            for (l, m) in texts { push(valid_map_body(t.kind), m.clone(), l.clone()); push("", m, format!("{l} (unused)")); }
            // every section header `!enum(name=<s>` and `!enum<s>` for s of length <= 4 over the punctuation the header grammar uses
            let alpha = ["\"", ")", "(", "a", "="];
            let mut layer = vec![String::new()]; let mut all = vec![String::new()];
            for _ in 0..4 { let mut next = vec![]; for p in &layer { for a in alpha { next.push(format!("{p}{a}")); } } all.extend(next.iter().cloned()); layer = next; }
            for x in &all {
                push("", format!("{magic}\n!enum(name={x}\n1 a\n"), format!("section header `!enum(name={x}`"));
                push("", format!("{magic}\n!enum{x}\n1 a\n"), format!("section header `!enum{x}`"));
            }
        },
        "del" => {
            let vm = valid_map(t.kind);
            let body = valid_map_body(t.kind);
            push(body, vm.clone(), "valid 20-line mapfile (control)".into());
            for (i, &(a, b)) in lex(&vm).iter().enumerate() { push(body, format!("{}{}", &vm[..a], &vm[b..]), format!("delete token {i} `{}`", &vm[a..b])); }
            let lines: Vec<&str> = vm.lines().collect();
            for i in 0..lines.len() {
                let m: String = lines.iter().enumerate().filter(|(j, _)| *j != i).map(|(_, l)| format!("{l}\n")).collect();
                push(body, m, format!("delete line {i} `{}`", lines[i]));
                let m: String = lines.iter().enumerate().map(|(j, l)| if j == i { format!("{l}\n{l}\n") } else { format!("{l}\n") }).collect();
                push(body, m, format!("duplicate line {i} `{}`", lines[i]));
            }
        },
        "byte" => {
            let vm = valid_map(t.kind);
            let body = valid_map_body(t.kind);
            let b = vm.as_bytes();
            let ins: &[&str] = &["\"", "(", ")", "=", ";", "!", "\n", " ", "0", "-", "\u{e9}", "\0"];
            for i in 0..=b.len() {
                if !vm.is_char_boundary(i) { continue; }
                push(body, vm[..i].to_string(), format!("valid mapfile truncated at byte {i}"));
                for x in ins { push(body, format!("{}{}{}", &vm[..i], x, &vm[i..]), format!("insert {:?} at byte {i}", x)); }
                if i < b.len() {
                    let mut j = i + 1; while !vm.is_char_boundary(j) { j += 1; }
                    push(body, format!("{}{}", &vm[..i], &vm[j..]), format!("delete byte {i}"));
                }
            }
        },
        // a user mapfile that re-declares one of the game's BUILT-IN intrinsic opcodes (other signature, other intrinsic),
        // then sugar that the built-in table would have compiled to that opcode
        "coreintr" => {
            if !t.has_regs() { return out; }
            let lang = if t.kind == Kind::Ecl { truth::LanguageKey::Ecl } else { truth::LanguageKey::Anm };
            let core: Vec<(i32, String)> = {
                let mut scope = truth::Builder::new().capture_diagnostics(true).build();
                let mut truth = scope.truth();
                let m = truth::verif_hooks::core_mapfile(truth.ctx().emitter, game(t.game), lang);
                m.ins_intrinsics.iter().map(|(k, v)| (*k, v.value.clone())).collect()
            };
            // one opcode per intrinsic kind (the first of each kind name)
            let mut seen_kinds = std::collections::BTreeSet::new();
            let ops: Vec<(i32, String)> = core.into_iter().filter(|(_, v)| seen_kinds.insert(v.split('(').next().unwrap_or("").to_string())).collect();
            let (ri, rf) = (format!("$REG[{}]", t.ireg), format!("%REG[{}]", t.freg));
            let body = format!("{ri} = {ri} + {ri};\n    {ri} += 2;\n    {ri} = 3;\n    {rf} = {rf} * 2.0;\nl:\n    if ({ri} == 1) goto l;\n    times(2) {{ {ri} = -{ri}; }}\n    goto l;");
            for (op, was) in &ops {
                for intr in ["Jmp()", "CountJmp()", "BinOp(op=\"+\"; type=\"int\")", "BinOp(op=\"-\"; type=\"float\")", "AssignOp(op=\"=\"; type=\"int\")", "AssignOp(op=\"+=\"; type=\"int\")", "UnOp(op=\"-\"; type=\"int\")",
                    "CondJmp(op=\"==\"; type=\"int\")", "CondJmp(op=\"<\"; type=\"float\")", "InterruptLabel()", "CondJmp2A(type=\"int\")", "CondJmp2B(op=\"==\")"] {
                    for sig in ["", "S", "SS", "SSS", "ff", "fff", "ot", "to", "Sot", "SSot", "ffot", "SS(imm)S"] {
                        push(&body, format!("{magic}\n!ins_signatures\n{op} {sig}\n!ins_intrinsics\n{op} {intr}\n"), format!("core opcode {op} ({}) re-declared as `{intr}` with signature `{sig}`", was.split('(').next().unwrap_or("")));
                    }
                }
                // signature only / intrinsic only
                for sig in ["", "S", "ot", "fff", "z(bs=4)"] { push(&body, format!("{magic}\n!ins_signatures\n{op} {sig}\n"), format!("core opcode {op} gets signature `{sig}` only")); }
                for intr in ["Jmp()", "BinOp(op=\"+\"; type=\"int\")"] { push(&body, format!("{magic}\n!ins_intrinsics\n{op} {intr}\n"), format!("core opcode {op} gets intrinsic `{intr}` only")); }
            }
        },
        // timeof / offsetof of a label in arguments of every width, with label times around every width's edges
        "labelarg" => {
            for letter in ["S", "s", "u", "b", "c", "U", "f", "S(imm)", "s(imm)", "n", "o", "t"] {
                for time in ["0", "127", "128", "255", "256", "32767", "32768", "65535", "65536", "70000", "2147483647", "-1", "-128", "-129", "-32768", "-32769", "-2147483648"] {
                    for what in ["timeof(lbl)", "offsetof(lbl)", "timeof(lbl) + 1", "-timeof(lbl)"] {
                        push(&format!("ins_2000({what});\n{time}:\nlbl:\n    ins_2004();"), format!("{magic}\n!ins_signatures\n2000 {letter}\n2004 \n"), format!("`{what}` in a `{letter}` argument, label time {time}"));
                    }
                }
            }
        },
        "attr" => for sig in ATTR_SIGS { for (vl, vb) in SIG_VARIANTS {
            push(vb, format!("{magic}\n!ins_signatures\n2000 {sig}\n"), format!("signature `{sig}`, {vl}"));
            if t.kind == Kind::Ecl && *vl == "unused" { push("", format!("{magic}\n!timeline_ins_signatures\n2000 {sig}\n"), format!("timeline signature `{sig}`")); }
        } },
        "intr" => for intr in INTRINSICS { for sig in INTRINSIC_SIGS {
            let m = format!("{magic}\n!ins_signatures\n2000 {sig}\n!ins_intrinsics\n2000 {intr}\n");
            push("", m.clone(), format!("intrinsic `{intr}` on signature `{sig}` (unused)"));
            if t.has_regs() { let r = format!("$REG[{}]", t.ireg); push(&format!("{r} = {r} + 1;\nl:\n    if ({r} == 1) goto l;\n    goto l;"), m, format!("intrinsic `{intr}` on signature `{sig}` (with statements)")); }
        } },
        "diff" => {
            let alpha = ["0", "1", "9", "-", "+", "E", "@", ":", "a"];
            let mut strs: Vec<String> = vec![String::new()];
            for a in alpha { strs.push(a.to_string()); }
            for a in alpha { for b in alpha { strs.push(format!("{a}{b}")); } }
            strs.extend(["E-x".to_string(), "EE-".into(), "é-".into(), "--".into(), "E -".into()]);
            for x in &strs {
                push("ins_2004();", format!("{magic}\n!ins_signatures\n2004 \n!difficulty_flags\n0 {x}\n"), format!("difficulty flag 0 `{x}`"));
                push(&format!("{{\"{}\"}}: ins_2004();", x.chars().next().unwrap_or('*')), format!("{magic}\n!ins_signatures\n2004 \n!difficulty_flags\n0 {x}\n1 {x}\n"), format!("difficulty flags 0 and 1 both `{x}`, used in a label"));
            }
            for ix in ["7", "8", "31", "32", "-1", "255", "256", "2147483647"] {
                push("{\"a\"}: ins_2004();", format!("{magic}\n!ins_signatures\n2004 \n!difficulty_flags\n{ix} a-\n"), format!("difficulty flag index {ix}"));
                push("ins_2004();", format!("{magic}\n!ins_signatures\n2004 \n!difficulty_flags\n{ix} a+\n"), format!("default-on difficulty flag index {ix}"));
            }
            for lab in ["", "*", "-", "+", "a", "ab", "a-", "a+b", "aa", "E", "1", "9", "*a", "é", "\\\"", "a:b", "0123456789"] {
                push(&format!("{{\"{lab}\"}}: ins_2004();"), format!("{magic}\n!ins_signatures\n2004 \n!difficulty_flags\n0 a-\n1 b+\n"), format!("difficulty label `{lab}`"));
            }
        },
        "enum" => {
            let head = format!("{magic}\n!ins_signatures\n2000 S(enum=\"Foo\")\n2001 S(enum=\"bool\")\n");
            let secs: Vec<(String, String)> = vec![
                ("plain".into(), "!enum(name=\"Foo\")\n1 a\n2 b\n".into()), ("bad ident 1a".into(), "!enum(name=\"Foo\")\n1 1a\n".into()), ("bad ident a-b".into(), "!enum(name=\"Foo\")\n1 a-b\n".into()),
                ("bad ident é".into(), "!enum(name=\"Foo\")\n1 é\n".into()), ("bad ident a.b".into(), "!enum(name=\"Foo\")\n1 a.b\n".into()), ("ident ins_3".into(), "!enum(name=\"Foo\")\n1 ins_3\n".into()),
                ("ident int".into(), "!enum(name=\"Foo\")\n1 int\n".into()), ("ident REG".into(), "!enum(name=\"Foo\")\n1 REG\n".into()), ("empty ident".into(), "!enum(name=\"Foo\")\n1 \n".into()),
                ("duplicate values".into(), "!enum(name=\"Foo\")\n1 a\n1 b\n".into()), ("duplicate names".into(), "!enum(name=\"Foo\")\n1 a\n2 a\n".into()), ("same line twice".into(), "!enum(name=\"Foo\")\n1 a\n1 a\n".into()),
                ("redefine bool".into(), "!enum(name=\"bool\")\n2 maybe\n".into()), ("redefine bool.true".into(), "!enum(name=\"bool\")\n0 true\n".into()), ("bool values swapped".into(), "!enum(name=\"bool\")\n0 true\n1 false\n".into()),
                ("extend AnmSprite".into(), "!enum(name=\"AnmSprite\")\n5 sprite5\n0 a\n".into()), ("extend AnmScript".into(), "!enum(name=\"AnmScript\")\n5 script0\n".into()), ("extend EclSub".into(), "!enum(name=\"EclSub\")\n0 a\n5 sub0\n".into()),
                ("extend MsgScript".into(), "!enum(name=\"MsgScript\")\n0 main\n".into()), ("extend BitmapColorFormat".into(), "!enum(name=\"BitmapColorFormat\")\n99 a\n".into()),
                ("two enums share a const".into(), "!enum(name=\"Foo\")\n1 a\n!enum(name=\"Bar\")\n2 a\n".into()), ("two enums share a const, same value".into(), "!enum(name=\"Foo\")\n1 a\n!enum(name=\"Bar\")\n1 a\n".into()),
                ("enum const named like a var".into(), "!enum(name=\"Foo\")\n1 a\n!gvar_names\n10000 a\n!gvar_types\n10000 $\n".into()), ("enum const named like an instruction".into(), "!enum(name=\"Foo\")\n1 a\n!ins_names\n2000 a\n".into()),
                ("enum split in two sections".into(), "!enum(name=\"Foo\")\n1 a\n!ins_names\n5 x\n!enum(name=\"Foo\")\n2 b\n".into()), ("enum never defined".into(), "".into()), ("value beyond i32".into(), "!enum(name=\"Foo\")\n4294967296 a\n".into()),
                ("negative value".into(), "!enum(name=\"Foo\")\n-1 a\n-2147483648 b\n".into()), ("enum named int".into(), "!enum(name=\"int\")\n1 a\n".into()), ("1000 consts".into(), format!("!enum(name=\"Foo\")\n{}", (0..1000).map(|i| format!("{i} c{i}\n")).collect::<String>())),
            ];
            let uses = ["", "ins_2000(a);", "ins_2000(Foo.a);", "ins_2000(Bar.a);", "ins_2000(1);", "ins_2000(b);", "ins_2001(true);", "ins_2001(maybe);", "ins_2001(bool.true);", "ins_2000(Foo.nosuch);", "ins_2000(NoEnum.a);", "ins_2000(a + 1);",
                "const int a = 5;\n    ins_2000(a);", "ins_2000(sprite5);", "ins_2000(AnmSprite.sprite0);", "int a = 3;\n    ins_2000(a);"];
            for (l, sec) in &secs { for u in uses {
                push(u, format!("{head}{sec}"), format!("enum section: {l}; use `{}`", u.replace('\n', " ")));
                // the same with the enum named by the signature always defined, so that "no such enum 'Foo'" cannot mask the section under test
                if !sec.contains("name=\"Foo\"") { push(u, format!("{head}!enum(name=\"Foo\")\n7 fooseven\n{sec}"), format!("enum section (Foo defined): {l}; use `{}`", u.replace('\n', " "))); }
            } }
            // every builtin enum x redefinition of one of its own consts / a new const / a clashing value
            for en in ["bool", "BitmapColorFormat", "AnmSprite", "AnmScript", "EclSub", "MsgScript", "TimelineSub"] {
                for (k, v) in [("0", "true"), ("1", "true"), ("5", "true"), ("1", "false"), ("0", "false"), ("3", "Argb8888"), ("1", "Argb8888"), ("7", "newconst"), ("0", "sprite0"), ("9", "sprite0"), ("0", "script0"), ("9", "script0")] {
                    for u in ["", "ins_2001(true);", "ins_2000(fooseven);"] {
                        push(u, format!("{head}!enum(name=\"Foo\")\n7 fooseven\n!enum(name=\"{en}\")\n{k} {v}\n"), format!("builtin enum {en} gets `{k} {v}`; use `{u}`"));
                    }
                }
            }
        },
        s if s.starts_with("sig") => {
            let var: usize = s[3..].parse().unwrap();
            if var == 3 {
                // thorough: all strings of length exactly 3, unused + called without arguments
                for sig in sig_strings(3).into_iter().filter(|x| x.chars().count() == 3) { push("ins_2000();", format!("{magic}\n!ins_signatures\n2000 {sig}\n"), format!("signature `{sig}`, no args")); }
            } else {
                let (vl, vb) = SIG_VARIANTS[var];
                for sig in sig_strings(2) { push(vb, format!("{magic}\n!ins_signatures\n2000 {sig}\n"), format!("signature `{sig}`, {vl}")); }
            }
        },
        _ => panic!("unknown mapfile sub-family {sub}"),
    }
    out
}

// =============================================================================================
// (vii) well-formed inputs that fail in a later stage, alone and in pairs

const LATE_TPLS: &[&str] = &["anm12", "ecl06", "ecl08", "anm06", "anm16", "ecl07", "std12", "msg12", "std06", "ecl10"];

/// (body, items appended to the file)
fn late_faults(t: &Tpl) -> Vec<(String, String, bool)> {
    // a leading `~` marks the core set (the faults that pass parsing and type checking and fail later): quick-tier pairs are core x core
    let mut v: Vec<(String, String, bool)> = vec![];
    let mut b = |body: &str| v.push((body.trim_start_matches('~').to_string(), String::new(), body.starts_with('~')));
    // faults that need no register
    for st in [
        "~ins_2004();", // control: valid
        "~l:\nl:\n    ins_2004();", "~goto nowhere;", "~ins_2000(offsetof(nowhere));", "ins_2000(timeof(nowhere));", "l:\n    goto l;", "l:\n    goto l @ 5;",
        "~ins_2003((\"a\":\"b\"));", "~ins_2003(\"a\" + \"b\");", "ins_2000(\"a\");", "ins_2003(1);", "const string s = \"a\";\n    ins_2003(s:s);", "ins_2003(\"a\" == \"a\" ? \"b\" : \"c\");",
        "ins_2000(x);", "~int x = 1;\n    ins_2000(x);", "int x;\n    ins_2000(x);", "int x = 1;\n    int x = 2;", "x = 1;\n    int x;", "float y = 1;\n", "int x = 1.0;", "var z = 1;\n    ins_2000(z);",
        "~break;", "loop { ins_2004(); }\n    break;", "loop { ins_2004(); break; }", "~return;", "return 1;", "~interrupt[1]:\n    ins_2004();", "interrupt[-1]:", "interrupt[1.0]:", "interrupt[x]:",
        "~ins_2000(1:2:3:4);", "~{\"E\"}: ins_2004();", "~{\"Q\"}: ins_2004();", "{\"\"}: ins_2004();", "{\"*\"}: ins_2004();", "{\"EE-\"}: ins_2004();", "{\"E\"}: { ins_2004(); }", "{\"E\"}: l:",
        "~times(3) { ins_2004(); }", "times(3 = 3) { }", "times(x = 3) { }", "times(0) { }", "~if (1) { ins_2004(); }", "if (1.0) { ins_2004(); }", "if (\"a\") { }", "while (1) { ins_2004(); }", "do { ins_2004(); } while (0);",
        "unless (1 == 1) goto l;\nl:", "if (1 == 1) break;", "~const int K = 1;\n    K = 2;", "const int K = 1;\n    ins_2000(K++);", "ins_2000(bool.true);", "ins_2000(Foo.x);", "ins_2000(AnmSprite.nosuch);", "~ins_2000(sprite9);", "ins_2000(script9);",
        "~nosuch();", "nosuch(1, 2);", "ins_2000();", "ins_2000(1, 2);", "ins_2000(1.0);", "ins_2001(1);", "ins_2005(1);", "ins_2000(ins_2004());", "ins_2000(takeInt(1));", "ins_9999();", "ins_9999(1, 2.0);", "ins_2000(@mask=1, 1);",
        "~@nosuch(1) async;", "nosuch(1) async;", "nosuch(1) async 5;", "@ins_2004();", "@takeInt(1);", "takeInt(1) async;", "~void inner() { ins_2004(); }", "const int inner() { return 1; }\n    ins_2000(inner());", "int inner(int a) { return a; }",
        "~inline void inner() {}", "void inner();", "~const void inner() {}\n    inner();", "const int f(int a) { return f(a); }\n    ins_2000(f(1));", "const int f(int a) { return a + 1; }\n    ins_2000(f(f(f(1))));", "const int f() { }\n    ins_2000(f());",
        "~x[1];", "ins_2000(x[1]);", "1;", "1 + 1;", "\"s\";", "ins_2000(1) ;;", "+5:\n-3:\n10:\n    ins_2004();", "10:\n5:\n    ins_2004();\n+(-20):\n    ins_2004();", "~ins_2004();\n    ins_0();\n    ins_2004();", "ins_2000(_S(1.0));", "ins_2001(_f(1));", "ins_2000($1);",
    ] { b(st); }
    if t.has_regs() {
        let (r, f) = (format!("$REG[{}]", t.ireg), format!("%REG[{}]", t.freg));
        let many: String = "~".to_string() + &(0..12).map(|i| format!("int a{i} = {r};\n    ")).collect::<String>() + &format!("{r} = a0 + a1 + a2 + a3 + a4 + a5 + a6 + a7 + a8 + a9 + a10 + a11;");
        let manyf: String = "~".to_string() + &(0..12).map(|i| format!("float b{i} = {f};\n    ")).collect::<String>() + &format!("{f} = b0 + b11;");
        for st in [
            many, manyf, format!("~{r} = ({r} + 1) * (({r} + 2) * (({r} + 3) * (({r} + 4) * (({r} + 5) * ({r} + 6)))));"), format!("~{f} = ({f} + 1.0) * (({f} + 2.0) * (({f} + 3.0) * (({f} + 4.0) * ({f} + 5.0))));"),
            format!("~{r} = {r} % 3;"), format!("~{r} = {r} << 2;"), format!("{r} = {r} >>> 1;"), format!("{r} = {r} & 1;"), format!("{r} = {r} ^ {r};"), format!("~{r} = ~{r};"), format!("~{r} = !{r};"), format!("{r} = -{r};"), format!("{r} = {r} && {r};"), format!("{r} = {r} || 1;"),
            format!("{r} = {r} == 1;"), format!("{r} = {r} < {r};"), format!("~{f} = sqrt({f});"), format!("~{f} = tan({f});"), format!("{f} = asin({f});"), format!("{f} = acos({f});"), format!("{f} = atan({f});"), format!("{f} = sin({f});"), format!("{f} = cos({f});"), format!("{f} = -{f};"),
            format!("~{r} = int({f});"), format!("~{f} = float({r});"), format!("{r} = int({f} + 1.0) + 1;"), format!("{r} = _S({f});"), format!("{f} = _f({r});"), format!("{r} = ${};", &f[1..]), format!("~{r} = {f};"), format!("{f} = {r};"), format!("{r} = 1.0;"), format!("{f} = 1;"), format!("{r} = \"a\";"),
            format!("{r} <<= 1;"), format!("{r} %= 2;"), format!("{r} |= 1;"), format!("{r} >>>= 1;"), format!("{f} %= 2.0;"), format!("{r} /= 0;"), format!("~{r}++;"), format!("++{r};"), format!("ins_2000({r}++);"), format!("~{r} = {r} ? 1 : 2;"), format!("{r} = {r} ? {r} : ({r} ? 1 : 2);"),
            format!("~{r} = 1:2:3:4;"), format!("~{r} = ({r}:2:3:4) + 1;"), format!("ins_2000({r}:{r}:1:2);"), format!("ins_2000(({r} + 1):2:3:4);"), format!("{{\"E\"}}: {r} = {r} + ({r} * 2);"),
            format!("~if ({r}) {{ ins_2004(); }}"), format!("if ({f}) {{ ins_2004(); }}"), format!("if ({r} == 1 && {r} == 2 || {r} == 3) {{ ins_2004(); }} else {{ ins_2004(); }}"), format!("if (!({r} < 1)) goto l;\nl:"), format!("while ({r}--) {{ ins_2004(); }}"),
            format!("~times({r}) {{ ins_2004(); }}"), format!("times({r} = 3) {{ ins_2004(); }}"), format!("~times({f} = 3) {{ ins_2004(); }}"), format!("times({r} = {r}) {{ }}"), format!("times(3) {{ times(3) {{ times(3) {{ times(3) {{ times(3) {{ ins_2004(); }} }} }} }} }}"),
            format!("~interrupt[{r}]:"), format!("ins_2000(@mask=1, {r});"), format!("ins_2000(@mask=0, {r});"), format!("ins_2001({r});"), format!("ins_2000({f});"), format!("ins_2003({r});"), format!("ins_2000({r} + 1);"), format!("ins_2002({r} + 1, {r} * 2);"), format!("ins_2005({r} * 2, {f} * 2.0);"),
            format!("{r} = offsetof(l);\nl:"), format!("{r} = {r} + offsetof(nowhere);"), format!("~ins_509();\n    {f} = ({f} + 1.0) * (({f} + 2.0) * ({f} + 3.0));"), format!("~ins_130(1);\n    {f} = ({f} + 1.0) * (({f} + 2.0) * ({f} + 3.0));"),
            format!("~$REG[99999] = {r};"), format!("{r} = $REG[99999] + 1;"), format!("int a = {r};\n    {{ int a = a + 1; {r} = a; }}\n    {r} = a;"), format!("int a = {r};\n    goto l;\n    {{ int b = 1;\nl:\n    {r} = b; }}"),
        ] { b(&st); }
        // several difficulty switches of different lengths in one statement, in either order (the length check guards an index)
        let sw = |n: usize| format!("({})", (1..=n).map(|k| k.to_string()).collect::<Vec<_>>().join(":"));
        for x in 2..=5usize { for y in 2..=5usize {
            if x == y { continue; }
            b(&format!("{r} = {} + {};", sw(x), sw(y)));
            b(&format!("ins_2002({}, {});", sw(x), sw(y)));
            for z in 2..=4usize { if z != x && z != y && x < 5 && y < 5 { b(&format!("ins_2002({}, {} + {});", sw(x), sw(y), sw(z))); } }
        }}
    }
    // file-level faults
    let mut i = |items: &str| v.push(("ins_2004();".to_string(), items.trim_start_matches('~').to_string(), items.starts_with('~')));
    for it in [
        "~inline void f() {}\n", "~void f();\n", "~int f() { return 1; }\n", "float f(float a) { return a; }\n", "const int f() { return 1; }\n", "void f(string s) {}\n", "void f(var x) {}\n", "void f(int x, int y) {}\n", "void f(float a, int b, float c) {}\n",
        "void f(int) {}\n", "void f(int a, int a) {}\n", "void f() {}\nvoid f() {}\n", "const void f() {}\nvoid f() {}\n", "void f() { f(); }\n", "void f(int a) { g(a); }\nvoid g(int a) { f(a); }\n", "void f(int a) { f(1.0); }\n", "void f(int a) { f(); }\n",
        "~script 5 extra {}\n", "~script -1 extra {}\n", "script 65536 extra {}\n", "script 1 aa {}\nscript 1 bb {}\n", "script extra {}\nscript extra {}\n", "script script0 {}\n", "script sub0 {}\n", "~script extra { ins_0(nosuch, 1.0, 2.0, 3.0, 4, 5, 6); }\n",
        "script extra { ins_2000(1); }\n", "script extra { ins_2000(@arg0=5, 1); }\n", "script extra { ins_2004(@arg0=5); }\n", "script extra { sub0(); }\n", "script extra { int x = 1; }\n", "script extra { $REG[10000] = 1; }\n",
        "~const int K = K2;\nconst int K2 = K;\n", "const int K = 1;\nconst int K = 2;\n", "const float K = \"s\";\n", "const string K = 1;\n", "const int K = 1.5;\n", "const int K = nosuch;\n", "const int K = sprite0;\n", "const int K = 1 / 0;\n", "const int sprite0 = 5;\n", "const int sub0 = 1;\n",
        "~meta { x: 1 }\n", "entry { path: \"a\" }\n", "entry {}\n", "meta {}\n", "#pragma mapfile \"nosuch.map\"\n", "#pragma image_source \"nosuch.anm\"\n", "#pragma bogus \"x\"\n",
    ] { i(it); }
    v
}

fn wrap_file(t: &Tpl, bodies: &[&str], items: &str) -> String {
    let ind = |b: &str| format!("    {b}\n");
    match (t.kind, bodies.len()) {
        (_, 1) => t.wrap(&ind(bodies[0])) + items,
        (Kind::Anm, _) => format!("{}script script0 {{\n{}}}\nscript script1 {{\n{}}}\n{items}", t.head, ind(bodies[0]), ind(bodies[1])),
        (Kind::Ecl, _) => format!("{}void sub0() {{\n{}}}\nvoid sub1() {{\n{}}}\n{items}", t.head, ind(bodies[0]), ind(bodies[1])),
        (Kind::Msg, _) | (Kind::End, _) => format!("{}script main {{\n{}}}\nscript other {{\n{}}}\n{items}", t.head.replace("table: {", "table: {1: {script: \"other\"}, "), ind(bodies[0]), ind(bodies[1])),
        _ => t.wrap(&format!("{}{}", ind(bodies[0]), ind(bodies[1]))) + items,
    }
}

const LATE_CHUNKS: usize = 8;

fn late_contexts(t: &Tpl) -> Vec<(&'static str, String, String)> {
    let c = if t.has_regs() { format!("$REG[{}] == 0", t.ireg) } else { "1 == 0".to_string() };
    vec![
        ("block", "{ ".into(), " }".into()), ("if", format!("if ({c}) {{ "), " }".into()), ("else", format!("if ({c}) {{ ins_2004(); }} else {{ "), " }".into()),
        ("unless", format!("unless ({c}) {{ "), " }".into()), ("loop", "loop { ".into(), " }".into()), ("times", "times(2) { ".into(), " }".into()),
        ("while", format!("while ({c}) {{ "), " }".into()), ("do-while", "do { ".into(), format!(" }} while ({c});")), ("after time label", "+10:\n    ".into(), "".into()),
    ]
}

/// modes: `alone`; `pairs` (core x core) / `allpairs`; `ctx1` (core faults in every single context) / `ctx2` (all faults in every
/// context and every context-in-context); an optional `=c` suffix selects chunk c of LATE_CHUNKS
fn late_cases(key: &str, mode: &str) -> Vec<Case> {
    let t = tpl(key);
    let faults = late_faults(&t);
    let map = t.map();
    let short = |s: &str| s.replace('\n', " ").chars().take(50).collect::<String>();
    let (mode, chunk) = match mode.split_once('=') { Some((m, c)) => (m, Some(c.parse::<usize>().unwrap())), None => (mode, None) };
    let mut out = vec![];
    match mode {
        "alone" => for (b, it, _) in &faults { out.push(Case::new(t.tool(), wrap_file(&t, &[b], it), &[&map], format!("{key}: `{}`{}", short(b), if it.is_empty() { String::new() } else { format!(" + item `{}`", short(it)) }))); },
        "pairs" | "allpairs" => {
            let all = mode == "allpairs";
            for (i, (b1, it1, c1)) in faults.iter().enumerate() { for (j, (b2, it2, c2)) in faults.iter().enumerate() {
                if i == j || (!all && !(*c1 && *c2)) { continue; }
                if !it1.is_empty() && !it2.is_empty() && it1 != it2 && (it1.contains("f(") && it2.contains("f(")) { continue; } // both define `f`: that is a different fault
                out.push(Case::new(t.tool(), wrap_file(&t, &[b1, b2], &format!("{it1}{it2}")), &[&map], format!("{key}: pair `{}`{} / `{}`{}", short(b1), short(it1), short(b2), short(it2))));
            } }
        },
        "ctx1" | "ctx2" => {
            let ctxs = late_contexts(&t);
            for (b, it, core) in &faults {
                if !it.is_empty() || (mode == "ctx1" && !core) { continue; }
                for (n1, o1, c1) in &ctxs {
                    out.push(Case::new(t.tool(), wrap_file(&t, &[&format!("{o1}{b}{c1}")], ""), &[&map], format!("{key}: `{}` inside {n1}", short(b))));
                    if mode == "ctx2" { for (n2, o2, c2) in &ctxs {
                        out.push(Case::new(t.tool(), wrap_file(&t, &[&format!("{o2}{o1}{b}{c1}{c2}")], ""), &[&map], format!("{key}: `{}` inside {n1} inside {n2}", short(b))));
                    } }
                }
            }
        },
        _ => panic!("bad late mode {mode}"),
    }
    match chunk { Some(c) => out.into_iter().enumerate().filter(|(i, _)| i % LATE_CHUNKS == c).map(|(_, x)| x).collect(), None => out }
}

// =============================================================================================
// item table

fn items(thorough: bool) -> Vec<String> {
    let seeds = seeds();
    let mut v = vec!["seed".to_string()];
    v.extend(other_items(thorough));
    for &i in &smallest_seeds(&seeds, if thorough { seeds.len() } else { 10 }) {
        v.push(format!("byte:{i}:trunc"));
        for j in 0..BYTE_INS.len() { v.push(format!("byte:{i}:{j}")); }
    }
    for i in 0..seeds.len() {
        v.push(format!("tok:{i}:del")); v.push(format!("tok:{i}:dup")); v.push(format!("tok:{i}:swap"));
    }
    for i in 0..seeds.len() { v.push(format!("allgames:{i}")); }
    for j in 0..(if thorough { REPL.len() } else { REPL_QUICK }) { for i in 0..seeds.len() { v.push(format!("tok:{i}:rep={j}")); } }
    if thorough { for &i in &smallest_seeds(&seeds, 5) { v.push(format!("tok:{i}:del2")); } }
    v
}

fn other_items(thorough: bool) -> Vec<String> {
    let mut v = vec![];
    for k in LATE_TPLS { v.push(format!("late:{k}:alone")); }
    // small chunks: the inputs that make truth hang or abort cost two timeouts each and should not queue up behind one another
    for k in LIT_TPLS.iter().chain(["mission095"].iter()) { for c in 0..(lit_cases(k).len() + LIT_CHUNK - 1) / LIT_CHUNK { v.push(format!("lit:{k}:{c}")); } }
    for sh in NEST_SHAPES { for k in nest_tpls(sh) { v.push(format!("nest:{sh}:{k}")); } }
    for sub in ["num", "hdr", "del", "byte", "attr", "intr", "diff", "enum", "coreintr", "labelarg"] { for k in MAP_TPLS { v.push(format!("map:{sub}:{k}")); } }
    for k in MAP_TPLS { for var in 0..SIG_VARIANTS.len() { v.push(format!("map:sig{var}:{k}")); } }
    if thorough { for k in MAP_TPLS { v.push(format!("map:sig3:{k}")); } }
    for k in LATE_TPLS {
        if thorough { for c in 0..LATE_CHUNKS { v.push(format!("late:{k}:ctx2={c}")); v.push(format!("late:{k}:allpairs={c}")); } }
        else { v.push(format!("late:{k}:ctx1")); v.push(format!("late:{k}:pairs")); }
    }
    v
}

fn family_of(item: &str) -> &str { item.split(':').next().unwrap_or("") }

fn gen_cases(item: &str, thorough: bool) -> Vec<Case> {
    let parts: Vec<&str> = item.split(':').collect();
    let mut cases = match parts[0] {
        "seed" => seeds().iter().map(|s| { let maps: Vec<&str> = s.map.iter().map(|m| m.as_str()).collect(); Case::new(tool(s.kind, s.game), s.src.clone(), &maps, format!("seed {}", s.name)).control() }).collect(),
        "tok" => tok_cases(parts[1].parse().unwrap(), parts[2], &seeds()),
        // every seed of a tool compiled for EVERY game that tool supports (the text may or may not be valid there:
        // signatures, registers and meta fields differ per game), plus every single-token deletion
        "allgames" => {
            let sds = seeds();
            let s = &sds[parts[1].parse::<usize>().unwrap()];
            let games: &[&str] = match s.kind {
                Kind::Ecl => &["th06", "th07", "th08", "th09", "th095", "th10", "th13", "th17"],
                Kind::Mission => &["th095", "th125", "th165"],
                _ => &["th06", "th07", "th08", "th09", "th095", "th10", "alcostg", "th11", "th12", "th125", "th128", "th13", "th14", "th143", "th15", "th16", "th165", "th17", "th18", "th185"],
            };
            let maps: Vec<&str> = s.map.iter().map(|m| m.as_str()).collect();
            let toks = lex(&s.src);
            let mut out = vec![];
            for g in games {
                if *g == s.game { continue; }
                let t = tool(s.kind, g);
                out.push(Case::new(t, s.src.clone(), &maps, format!("{} as {g}", s.name)));
                for (i, &(a, b)) in toks.iter().enumerate() { out.push(Case::new(t, format!("{}{}", &s.src[..a], &s.src[b..]), &maps, format!("{} as {g}: delete token {i}", s.name))); }
            }
            out
        },
        "byte" => byte_cases(parts[1].parse().unwrap(), parts[2], &seeds(), thorough),
        "lit" => { let c: usize = parts[2].parse().unwrap(); lit_cases(parts[1]).into_iter().skip(c * LIT_CHUNK).take(LIT_CHUNK).collect() },
        "nest" => nest_cases(parts[1], parts[2], thorough),
        "map" => map_cases(parts[1], parts[2]),
        "late" => late_cases(parts[1], parts[2]),
        _ => panic!("unknown item {item}"),
    };
    // MSG / ending / EoSD ANM store the opcode in one signed byte: the test instructions 2000..2005 become 100..105 there
    let small_ops = parts.iter().any(|p| ["anm06", "msg12", "msg06", "end10"].contains(p));
    for (i, c) in cases.iter_mut().enumerate() {
        if small_ops && parts[0] != "seed" && parts[0] != "tok" && parts[0] != "byte" {
            if let Ok(s) = std::str::from_utf8(&c.src) { c.src = s.replace("ins_200", "ins_10").into_bytes(); }
            for m in &mut c.maps { *m = m.replace("\n200", "\n10"); }
        }
        if i == 0 && (item.starts_with("map:del:") || (parts[0] == "late" && parts[2] == "alone") || (parts[0] == "lit" && parts[1] != "mission095" && parts[2] == "0") || item.starts_with("nest:paren:")) { c.must_ok = true; }
        c.sigkey = match parts[0] { "nest" => format!("nest-{}", parts[1]), "lit" | "map" | "late" => desc_key(&c.desc), f => f.to_string() };
    }
    cases
}

// =============================================================================================
// run

// =============================================================================================
// (viii) mapfiles as FILES: gamemaps, `#pragma mapfile`, several -m, TRUTH_MAP_PATH — through the real command line

struct FsCase { name: String, files: Vec<(String, String)>, args: Vec<String>, env: Vec<(String, String)> }

fn fs_cases() -> Vec<FsCase> {
    let mut v = vec![];
    let src = format!("{STD12_META}script main {{\n    ins_0();\n}}\n");
    let good = "!stdmap\n!ins_names\n0 nopp\n".to_string();
    let base = |name: &str, files: Vec<(&str, String)>, maps: &[&str]| {
        let mut f: Vec<(String, String)> = files.into_iter().map(|(a, b)| (a.to_string(), b)).collect();
        f.push(("in.std".into(), src.clone()));
        let mut args: Vec<String> = vec!["trustd".into(), "compile".into(), "-g".into(), "12".into(), "in.std".into(), "-o".into(), "out.bin".into()];
        for m in maps { args.push("-m".into()); args.push(m.to_string()); }
        FsCase { name: name.to_string(), files: f, args, env: vec![] }
    };
    let gm = |entries: &str| format!("!gamemap\n!game_files\n{entries}");
    v.push(base("plain mapfile (control)", vec![("a.stdm", good.clone())], &["a.stdm"]));
    v.push(base("gamemap -> plain", vec![("g.stdm", gm("12 a.stdm\n")), ("a.stdm", good.clone())], &["g.stdm"]));
    v.push(base("gamemap -> itself", vec![("self.stdm", gm("12 self.stdm\n"))], &["self.stdm"]));
    v.push(base("gamemap -> gamemap -> plain", vec![("g1.stdm", gm("12 g2.stdm\n")), ("g2.stdm", gm("12 a.stdm\n")), ("a.stdm", good.clone())], &["g1.stdm"]));
    v.push(base("gamemap cycle of two", vec![("ping.stdm", gm("12 pong.stdm\n")), ("pong.stdm", gm("12 ping.stdm\n"))], &["ping.stdm"]));
    v.push(base("gamemap cycle of three", vec![("c1.stdm", gm("12 c2.stdm\n")), ("c2.stdm", gm("12 c3.stdm\n")), ("c3.stdm", gm("12 c1.stdm\n"))], &["c1.stdm"]));
    v.push(base("gamemap without an entry for the game", vec![("g.stdm", gm("8 a.stdm\n")), ("a.stdm", good.clone())], &["g.stdm"]));
    v.push(base("gamemap -> missing file", vec![("g.stdm", gm("12 nope.stdm\n"))], &["g.stdm"]));
    v.push(base("gamemap -> directory", vec![("g.stdm", gm("12 sub\n")), ("sub/keep", String::new())], &["g.stdm"]));
    v.push(base("gamemap -> ./itself through a dot path", vec![("dot.stdm", gm("12 ./dot.stdm\n"))], &["dot.stdm"]));
    v.push(base("gamemap with the same game twice", vec![("g.stdm", gm("12 a.stdm\n12 b.stdm\n")), ("a.stdm", good.clone()), ("b.stdm", good.clone())], &["g.stdm"]));
    v.push(base("gamemap with a bad game number", vec![("g.stdm", gm("99999999999 a.stdm\n-1 a.stdm\n")), ("a.stdm", good.clone())], &["g.stdm"]));
    v.push(base("gamemap -> mapfile of another language", vec![("g.stdm", gm("12 a.anmm\n")), ("a.anmm", "!anmmap\n!ins_names\n0 nopp\n".into())], &["g.stdm"]));
    v.push(base("gamemap with an empty path", vec![("g.stdm", gm("12 \n"))], &["g.stdm"]));
    v.push(base("gamemap with extra sections", vec![("g.stdm", format!("{}!ins_names\n0 nopp\n", gm("12 a.stdm\n"))), ("a.stdm", good.clone())], &["g.stdm"]));
    v.push(base("-m missing file", vec![], &["nope.stdm"]));
    v.push(base("-m directory", vec![("sub/keep", String::new())], &["sub"]));
    v.push(base("-m the source file itself", vec![], &["in.std"]));
    v.push(base("-m empty file", vec![("e.stdm", String::new())], &["e.stdm"]));
    v.push(base("-m binary garbage", vec![("b.stdm", "\u{0}\u{1}\u{2}!stdmap\u{0}".into())], &["b.stdm"]));
    v.push(base("-m twice the same file", vec![("a.stdm", good.clone())], &["a.stdm", "a.stdm"]));
    v.push(base("-m two files defining one name differently", vec![("a.stdm", good.clone()), ("b.stdm", "!stdmap\n!ins_names\n1 nopp\n".into())], &["a.stdm", "b.stdm"]));
    // #pragma mapfile
    for (name, target, files) in [
        ("pragma -> plain", "a.stdm", vec![("a.stdm", good.clone())]), ("pragma -> missing", "nope.stdm", vec![]), ("pragma -> the source itself", "in2.std", vec![]),
        ("pragma -> gamemap cycle", "ping.stdm", vec![("ping.stdm", gm("12 pong.stdm\n")), ("pong.stdm", gm("12 ping.stdm\n"))]), ("pragma -> self gamemap", "self.stdm", vec![("self.stdm", gm("12 self.stdm\n"))]),
        ("pragma -> directory", "sub", vec![("sub/keep", String::new())]), ("pragma -> empty path", "", vec![]),
    ] {
        let mut f: Vec<(String, String)> = files.into_iter().map(|(a, b): (&str, String)| (a.to_string(), b)).collect();
        f.push(("in2.std".into(), format!("#pragma mapfile \"{target}\"\n{src}")));
        v.push(FsCase { name: name.to_string(), files: f, args: ["trustd", "compile", "-g", "12", "in2.std", "-o", "out.bin"].iter().map(|s| s.to_string()).collect(), env: vec![] });
    }
    // TRUTH_MAP_PATH (directories searched for any.stdm)
    for (name, files, path) in [
        ("TRUTH_MAP_PATH -> dir with any.stdm gamemap", vec![("maps/any.stdm", gm("12 th12.stdm\n")), ("maps/th12.stdm", good.clone())], "maps"),
        ("TRUTH_MAP_PATH -> dir whose any.stdm names itself", vec![("maps/any.stdm", gm("12 any.stdm\n"))], "maps"),
        ("TRUTH_MAP_PATH -> missing dir", vec![], "nodir"), ("TRUTH_MAP_PATH -> two dirs", vec![("m1/any.stdm", gm("12 x.stdm\n")), ("m1/x.stdm", good.clone()), ("m2/any.stdm", gm("12 y.stdm\n")), ("m2/y.stdm", good.clone())], "m1:m2"),
        ("TRUTH_MAP_PATH -> a file", vec![("a.stdm", good.clone())], "a.stdm"),
    ] {
        let mut f: Vec<(String, String)> = files.into_iter().map(|(a, b): (&str, String)| (a.to_string(), b)).collect();
        f.push(("in.std".into(), src.clone()));
        v.push(FsCase { name: name.to_string(), files: f, args: ["trustd", "compile", "-g", "12", "in.std", "-o", "out.bin"].iter().map(|s| s.to_string()).collect(), env: vec![("TRUTH_MAP_PATH".into(), path.to_string())] });
    }
    // the same gamemap shapes on decompile (of the control's output) — appended by the runner
    v
}

/// Runs every FsCase (compile, and decompile of a known-good binary with the same mapfile arguments) as a real CLI subprocess
/// in its own directory with a 30 s limit.  Verdict per the property: exit status 0 or 1; 1 iff an error diagnostic was printed;
/// no panic text; no signal / abort / timeout.
fn run_fs_family(rep: &mut Report) {
    let cases = fs_cases();
    let base = drive::scratch_dir().join("c04-fs");
    let exe = drive::exe_snapshot();
    // a known-good binary for the decompile variants
    let good_bin = drive::compile(tool(Kind::Std, "th12"), format!("{STD12_META}script main {{\n    ins_0();\n}}\n").as_bytes(), &CompileOpts::default()).bytes.unwrap_or_default();
    let idx: Vec<usize> = (0..cases.len() * 2).collect();
    let results = crate::common::par_map(&idx, Some(rep.deadline()), |_, &k| {
        let c = &cases[k / 2];
        let decompile = k % 2 == 1;
        let dir = base.join(format!("case{k}"));
        let _ = std::fs::remove_dir_all(&dir);
        let _ = std::fs::create_dir_all(&dir);
        for (p, content) in &c.files { let fp = dir.join(p); if let Some(parent) = fp.parent() { let _ = std::fs::create_dir_all(parent); } let _ = std::fs::write(&fp, content); }
        let mut args = c.args.clone();
        if decompile {
            let _ = std::fs::write(dir.join("good.bin"), &good_bin);
            // compile args -> decompile args: keep -m options, replace the verb / input / output
            let maps: Vec<String> = args.iter().skip_while(|a| *a != "-m").cloned().collect();
            args = vec!["trustd".into(), "decompile".into(), "-g".into(), "12".into(), "good.bin".into()];
            args.extend(maps);
            if c.args.iter().any(|a| a == "in2.std") { return None; }   // pragma cases have no decompile form
        }
        let mut cmd = std::process::Command::new(&exe);
        cmd.arg("as-truth-core").args(&args).current_dir(&dir).env_remove("TRUTH_MAP_PATH").env("RUST_BACKTRACE", "0")
            .stdout(std::process::Stdio::piped()).stderr(std::process::Stdio::piped());
        for (k, v) in &c.env { cmd.env(k, v); }
        let mut child = cmd.spawn().expect("spawn cli");
        let start = Instant::now();
        let mut timed_out = false;
        loop {
            match child.try_wait() { Ok(Some(_)) => break, Ok(None) => {}, Err(_) => break }
            if start.elapsed() > Duration::from_secs(30) { let _ = child.kill(); timed_out = true; break; }
            std::thread::sleep(Duration::from_millis(5));
        }
        let out = child.wait_with_output().expect("wait cli");
        let stderr = String::from_utf8_lossy(&out.stderr).to_string();
        let _ = std::fs::remove_dir_all(&dir);
        Some((out.status.code(), timed_out, stderr))
    });
    let mut n = 0u64;
    for (k, r) in results.into_iter().enumerate() {
        let Some(Some((code, timed_out, stderr))) = r else { continue; };
        let c = &cases[k / 2];
        let verb = if k % 2 == 1 { "decompile" } else { "compile" };
        n += 1; rep.evaluations += 1; rep.transitions += 1; rep.states += 1; rep.traces_validated += 1;
        let has_err = stderr.lines().any(|l| l.starts_with("error") || l.starts_with("bug"));
        let det = json!({"family": "fsmap", "case": c.name, "verb": verb, "args": c.args, "env": c.env, "files": c.files.iter().map(|(p, s)| json!({"path": p, "content": s.chars().take(300).collect::<String>()})).collect::<Vec<_>>(),
            "exit": code, "timed_out": timed_out, "stderr": stderr.chars().take(600).collect::<String>()});
        let key: String = c.name.chars().map(|ch| if ch.is_ascii_alphanumeric() { ch } else { '-' }).collect();
        let class = if timed_out { rep.fail(format!("C04:fsmap:timeout:{key}"), det); "timeout" }
            else if code.is_none() { rep.fail(format!("C04:fsmap:killed-by-signal:{key}"), det); "abort" }
            else if stderr.contains("panicked at") { rep.fail(format!("C04:fsmap:panic:{key}"), det); "panic" }
            else if code == Some(0) && !has_err { "ok" }
            else if code == Some(1) && has_err { "error" }
            else if code == Some(0) { rep.fail(format!("C04:fsmap:error-but-success:{key}"), det); "error-but-success" }
            else if code == Some(1) { rep.fail(format!("C04:fsmap:failure-without-error:{key}"), det); "failure-without-error" }
            else { rep.fail(format!("C04:fsmap:exit-status-{}:{key}", code.unwrap_or(-1)), det); "odd-exit-status" };
        if class != "ok" { rep.nontrivial += 1; }
        rep.outcome(&format!("fsmap|{verb}|{class}"));
    }
    rep.extra.insert("fsmap_runs".into(), json!(n));
}

pub fn run(tier: &str) -> Report {
    let thorough = tier == "thorough";
    if std::env::var(WORKER_ENV).is_ok() { worker_main(thorough); }
    let mut rep = Report::new("C04", tier, "fault_enumeration");
    rep.rule = "the outcome class (ok / first error line class / panic) differs from the seed's outcome `ok`, i.e. the tool noticed the fault".into();
    let only: Option<Vec<String>> = std::env::var("VERIF_C04_FAMILIES").ok().map(|s| s.split(',').map(String::from).collect());
    let all_items: Vec<String> = items(thorough).into_iter().filter(|i| only.as_ref().map_or(true, |o| o.iter().any(|f| f == family_of(i)))).collect();
    let deadline = rep.deadline();
    let next = AtomicUsize::new(0);
    let results: Mutex<Vec<Option<ItemAcc>>> = Mutex::new((0..all_items.len()).map(|_| None).collect());
    let _ = drive::exe_snapshot();
    std::thread::scope(|s| {
        for _ in 0..crate::common::n_threads().min(all_items.len().max(1)) {
            s.spawn(|| {
                let mut slot: Option<Worker> = None;
                loop {
                    let i = next.fetch_add(1, Ordering::Relaxed);
                    if i >= all_items.len() || Instant::now() > deadline { break; }
                    let acc = run_item(&mut slot, tier, &all_items[i], false);
                    results.lock().unwrap()[i] = Some(acc);
                }
                if let Some(w) = slot.take() { drop(w.stdin); let mut c = w.child; let _ = c.wait(); }
            });
        }
    });
    let results = results.into_inner().unwrap();

    // ---- merge, in item order
    let mut seen: HashSet<u64> = HashSet::new();
    let mut nontrivial: HashSet<u64> = HashSet::new();
    let mut fam_counts: BTreeMap<String, (u64, u64, u64)> = BTreeMap::new(); // generated, evaluated, noticed
    let mut fail_best: BTreeMap<String, (u64, usize, String, usize)> = BTreeMap::new(); // sig -> count, len, item, index
    let mut slowest = (0u64, String::new(), 0usize);
    let mut hwm = 0u64;
    let mut not_run = 0usize;
    let mut nest_deaths: BTreeMap<String, Value> = BTreeMap::new();
    let mut deaths: Vec<Value> = vec![];
    let mut slow: Vec<Value> = vec![];
    for (item, acc) in all_items.iter().zip(results.iter()) {
        let fam = family_of(item).to_string();
        let acc = match acc { Some(a) => a, None => { not_run += 1; continue } };
        let e = fam_counts.entry(fam.clone()).or_insert((0, 0, 0));
        e.0 += acc.total as u64;
        rep.transitions += acc.total as u64;
        for (h, class) in &acc.rows {
            e.1 += 1;
            rep.evaluations += 1;
            seen.insert(*h);
            if class != "ok" { e.2 += 1; nontrivial.insert(*h); }
            rep.outcome(&format!("{fam}|{class}"));
        }
        for (sig, n, len, ix) in &acc.fails {
            let b = fail_best.entry(sig.clone()).or_insert((0, usize::MAX, item.clone(), *ix));
            b.0 += n;
            if *len < b.1 { b.1 = *len; b.2 = item.clone(); b.3 = *ix; }
        }
        for (k, how, timeout) in &acc.deaths {
            let cases = gen_cases(item, thorough);
            let c = &cases[*k];
            rep.evaluations += 1; e.1 += 1;
            seen.insert(c.hash64()); nontrivial.insert(c.hash64());
            let what = if *timeout { "timeout" } else { "abort" };
            deaths.push(json!({"item": item, "index": k, "desc": c.desc, "what": what, "how": how.chars().take(300).collect::<String>(), "information_only": c.info_only}));
            rep.outcome(&format!("{fam}|{what}{}", if c.info_only { " (beyond the property's bound; information only)" } else { "" }));
            if fam == "nest" { nest_deaths.entry(format!("{}:{}", c.sigkey, kind_name(c.tool.kind))).or_insert(json!({"first_death": c.desc, "how": how, "violation": !c.info_only})); }
            if c.info_only { continue; }
            let sig = death_sig(c, how, *timeout);
            let len = c.src.len();
            let b = fail_best.entry(sig).or_insert((0, usize::MAX, item.clone(), *k));
            b.0 += 1;
            if len < b.1 { b.1 = len; b.2 = item.clone(); b.3 = *k; }
        }
        for m in &acc.machinery { rep.machinery_errors.push(m.clone()); }
        for n in &acc.slow { let mut n = n.clone(); n["item"] = json!(item); slow.push(n); }
        for n in &acc.notes { rep.machinery_errors.push(format!("control case does not compile cleanly: {} -> {} :: {}", n["desc"].as_str().unwrap_or(""), n["class"].as_str().unwrap_or(""), n["diag"].as_str().unwrap_or(""))); }
        if acc.max_ms.0 > slowest.0 { slowest = (acc.max_ms.0, item.clone(), acc.max_ms.1); }
        hwm = hwm.max(acc.hwm_kb);
    }
    rep.states = seen.len() as u64;
    rep.nontrivial = nontrivial.len() as u64;
    rep.traces_validated = rep.evaluations;

    // ---- failures: one per signature, minimal witness
    let mut failure_counts = serde_json::Map::new();
    for (sig, (count, _len, item, ix)) in &fail_best {
        let cases = gen_cases(item, thorough);
        let c = &cases[*ix];
        failure_counts.insert(sig.clone(), json!(count));
        rep.fail(sig.clone(), detail_of(c, item, *ix, thorough));
    }
    rep.extra.insert("failure_counts".into(), Value::Object(failure_counts));
    rep.extra.insert("family_counts".into(), json!(fam_counts.iter().map(|(k, v)| (k.clone(), json!({"generated": v.0, "evaluated": v.1, "noticed": v.2}))).collect::<serde_json::Map<_, _>>()));
    rep.extra.insert("slowest_case".into(), json!({"ms": slowest.0, "item": slowest.1, "index": slowest.2}));
    rep.extra.insert("worker_max_rss_kb".into(), json!(hwm));
    slow.sort_by_key(|n| std::cmp::Reverse(n["ms"].as_u64().unwrap_or(0)));
    slow.truncate(15);
    rep.extra.insert("cases_over_1s".into(), json!(slow));
    rep.extra.insert("nesting_deaths".into(), json!(nest_deaths));
    rep.extra.insert("worker_deaths".into(), json!(deaths));
    rep.extra.insert("items".into(), json!(all_items.len()));

    // ---- samples
    let done: Vec<usize> = (0..all_items.len()).filter(|&i| results[i].as_ref().map_or(false, |a| !a.rows.is_empty())).collect();
    if !done.is_empty() {
        for &i in &[done[0], done[done.len() / 3], done[done.len() / 2], done[2 * done.len() / 3], done[done.len() - 1]] {
            let cases = gen_cases(&all_items[i], thorough);
            let acc = results[i].as_ref().unwrap();
            let k = (acc.rows.len() / 2).min(cases.len() - 1);
            rep.sample(json!({"item": all_items[i], "index": k, "desc": cases[k].desc, "tool": cases[k].tool.name(),
                "src": String::from_utf8_lossy(&cases[k].src).chars().take(400).collect::<String>(), "outcome": acc.rows.get(k).map(|r| r.1.clone())}));
        }
    }

    if only.is_none() || only.as_ref().map_or(false, |o| o.iter().any(|f| f == "fsmap")) { run_fs_family(&mut rep); }
    if not_run > 0 { rep.cap_hit = Some(format!("wall cap: {not_run} of {} items not run", all_items.len())); }
    rep.exhaustive = not_run == 0 && only.is_none();
    rep.bound_completed = format!("{} items ({}); families: {}", all_items.len() - not_run,
        if thorough { "thorough: all token ops x all replacement tokens + token-pair deletions, every byte offset of every seed, nesting to 4096 (beyond 256: information only), all fault pairs and two-level contexts, signature strings to length 3" } else { "quick: token delete/duplicate/swap + 12 replacement tokens, every 3rd byte offset of the 10 smallest seeds, nesting to 256, core x core fault pairs" },
        fam_counts.iter().map(|(k, v)| format!("{k}={}", v.1)).collect::<Vec<_>>().join(" "));
    rep.assumptions = vec![
        "in-process driver (drive::compile) mirrors cli_def::*_compile::run; `#pragma mapfile`/image sources are not followed".into(),
        "every case ran in a worker subprocess on an 8 MiB-stack thread (the CLI's main-thread stack); the harness build is opt-level 2 with debug assertions and overflow checks".into(),
        "`all byte strings` is approximated by the edit-distance-1 ball (token and byte level) around the seeds plus the generated families".into(),
    ];
    rep.explanation = "error <=> failure, no panic / abort / timeout, checked on every generated input; one Failure per signature with the shortest witness".into();
    rep
}

fn detail_of(c: &Case, item: &str, ix: usize, thorough: bool) -> Value {
    let mut d = case_to_json(c);
    d["family"] = json!(family_of(item));
    d["gen"] = json!({"item": item, "index": ix, "thorough": thorough});
    let big = c.src.len() > 2048 || c.maps.iter().any(|m| m.len() > 4096);
    if big {
        // keep a readable prefix; replay rebuilds the full input from `gen`
        d.as_object_mut().unwrap().remove("src"); d.as_object_mut().unwrap().remove("src_hex"); d.as_object_mut().unwrap().remove("src_lossy");
        d["src_prefix"] = json!(String::from_utf8_lossy(&c.src).chars().take(1500).collect::<String>());
        d["src_len"] = json!(c.src.len());
        d["maps"] = json!(c.maps.iter().map(|m| m.chars().take(1500).collect::<String>()).collect::<Vec<_>>());
        d["truncated"] = json!(true);
    }
    d
}

// =============================================================================================
// replay

pub fn replay(detail: &Value) -> i32 {
    if std::env::var(WORKER_ENV).is_ok() { worker_main(false); }
    let case = if detail["truncated"].as_bool().unwrap_or(false) || (detail.get("src").is_none() && detail.get("src_hex").is_none()) {
        let item = detail["gen"]["item"].as_str().unwrap_or("");
        let ix = detail["gen"]["index"].as_u64().unwrap_or(0) as usize;
        let th = detail["gen"]["thorough"].as_bool().unwrap_or(false);
        match crate::common::catch(|| gen_cases(item, th)) { Ok(cs) if ix < cs.len() => cs[ix].clone(), _ => { println!("cannot rebuild case from generator descriptor {item}#{ix}"); return 2 } }
    } else {
        match case_from_json(detail) { Some(c) => c, None => { println!("malformed replay detail"); return 2 } }
    };
    println!("C04 replay: {} [{}] {} bytes, {} mapfile(s)", case.desc, case.tool.name(), case.src.len(), case.maps.len());
    let show: String = String::from_utf8_lossy(&case.src).chars().take(1200).collect();
    println!("--- input ---\n{show}\n--- end ---");
    for m in &case.maps { println!("--- mapfile ---\n{}\n--- end ---", m.chars().take(1200).collect::<String>()); }
    // the worker for a replay is `replay C04 <file>`?  No: spawn the ordinary `run C04 quick` worker.
    let mut slot: Option<Worker> = None;
    let mut verdicts = vec![];
    for round in 0..2 {
        match attempt(&mut slot, "quick", &json!({"raw": case_to_json(&case)})) {
            Attempt::Done(v) => {
                println!("run {round}: outcome class = {}  (ok={}, {} ms)", v["class"].as_str().unwrap_or("?"), v["ok"], v["ms"]);
                if round == 0 { println!("--- diagnostics ---\n{}\n--- end ---", v["diag"].as_str().unwrap_or("")); }
                match v["viol"].as_str() { Some(s) => { println!("VIOLATES: {s}"); verdicts.push(true) }, None => { println!("holds: error <=> failure, no panic"); verdicts.push(false) } }
            },
            Attempt::Died { how, timeout, .. } => {
                println!("run {round}: worker {} ({how})", if timeout { "timed out" } else { "died" });
                if case.info_only { println!("(beyond the property's bound: information only)"); verdicts.push(false) } else { println!("VIOLATES: {}", death_sig(&case, &how, timeout)); verdicts.push(true) }
            },
        }
    }
    if let Some(w) = slot.take() { w.kill(); }
    drive::cleanup_scratch();
    if verdicts.iter().all(|&v| v) { 1 } else { 0 }
}
