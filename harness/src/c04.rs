//! C04 — any text input ends in success or a rendered diagnostic, never a crash.
//!
//! Fault enumeration: seven generator families (valid seeds, every single-token edit, every
//! single-byte edit, extreme literals, nesting, mapfile texts, late-stage failures) are run
//! through the real compile entry points.  EVERY case runs in a worker subprocess (this same
//! binary, `run C04 <tier>` with `VERIF_C04_WORKER=1`) on a thread with an 8 MiB stack -- the
//! stack the real CLI's main thread gets -- so a stack overflow, abort or endless loop kills only
//! the worker: the parent notices, re-runs that single case in a fresh worker (replay-twice rule)
//! and carries on behind it.
//!
//! Oracle per input: no panic (including the diagnostic renderer), `Ok` <=> no error-severity
//! diagnostic rendered, terminates within 10 s, worker survives, no > 1 GiB RSS growth.

use std::collections::{BTreeMap, HashMap, HashSet};
use std::hash::{Hash, Hasher};
use std::io::{BufRead, BufReader, Read, Write};
use std::process::{Child, ChildStdin, Command, Stdio};
use std::sync::atomic::{AtomicUsize, Ordering};
use std::sync::{mpsc, Arc, Mutex};
use std::time::{Duration, Instant};

use serde_json::{json, Value};
use truth::Game;

use crate::common::{Panic, Report};
use crate::drive::{self, CompileOpts, Kind, Tool};

const WORKER_ENV: &str = "VERIF_C04_WORKER";
const CASE_TIMEOUT: Duration = Duration::from_secs(10);
const WORKER_STACK: usize = 8 << 20;
const VIOLATION_DEPTH: usize = 256;

// =============================================================================================
// cases

#[derive(Clone)]
struct Case {
    tool: Tool,
    src: Vec<u8>,
    maps: Vec<String>,
    desc: String,
    /// a death of this case is information only (nesting deeper than the property's bound)
    info_only: bool,
    /// sub-key used in abort/timeout signatures (shape for the nesting family)
    sigkey: String,
}

impl Case {
    fn new(tool: Tool, src: impl Into<Vec<u8>>, maps: &[&str], desc: impl Into<String>) -> Case {
        Case { tool, src: src.into(), maps: maps.iter().map(|s| s.to_string()).collect(), desc: desc.into(), info_only: false, sigkey: String::new() }
    }
    fn hash64(&self) -> u64 {
        let mut h = std::collections::hash_map::DefaultHasher::new();
        (self.tool.kind as u8).hash(&mut h);
        self.tool.game.as_str().hash(&mut h);
        self.src.hash(&mut h);
        self.maps.hash(&mut h);
        h.finish()
    }
}

fn kind_name(k: Kind) -> &'static str {
    match k { Kind::Anm => "anm", Kind::Std => "std", Kind::Msg => "msg", Kind::End => "end", Kind::Mission => "mission", Kind::Ecl => "ecl" }
}
fn kind_from(s: &str) -> Option<Kind> {
    Some(match s { "anm" => Kind::Anm, "std" => Kind::Std, "msg" => Kind::Msg, "end" => Kind::End, "mission" => Kind::Mission, "ecl" => Kind::Ecl, _ => return None })
}
fn game(s: &str) -> Game { s.parse::<Game>().unwrap_or_else(|_| panic!("bad game {s}")) }
fn tool(k: Kind, g: &str) -> Tool { Tool::new(k, game(g)) }

fn hex(b: &[u8]) -> String { b.iter().map(|x| format!("{x:02x}")).collect() }
fn unhex(s: &str) -> Vec<u8> {
    (0..s.len() / 2).filter_map(|i| u8::from_str_radix(&s[2 * i..2 * i + 2], 16).ok()).collect()
}

// =============================================================================================
// evaluation of one case (worker side)

struct Verdict { class: String, viol: Option<String>, ms: u64, diag: String, ok: bool }

/// digits -> N (runs squashed), quoted / backticked text -> `_`, at most `max` chars
fn normalise(line: &str, max: usize) -> String {
    let mut out = String::new();
    let mut chars = line.chars().peekable();
    let mut n = 0usize;
    while let Some(c) = chars.next() {
        if n >= max { break; }
        if c == '`' || c == '"' || (c == '\'' && !out.ends_with(|p: char| p.is_alphanumeric())) {
            // skip to the matching close on this line, if there is one
            let rest: String = chars.clone().collect();
            if let Some(end) = rest.find(c) {
                for _ in 0..rest[..end].chars().count() + 1 { chars.next(); }
                out.push(c); out.push('_'); out.push(c); n += 3;
                continue;
            }
        }
        if c.is_ascii_digit() { if !out.ends_with('N') { out.push('N'); n += 1; } continue; }
        out.push(c); n += 1;
    }
    out
}

fn first_error_line(diag: &str) -> Option<&str> { diag.lines().find(|l| l.starts_with("error") || l.starts_with("bug")) }

fn eval_case(c: &Case) -> Verdict {
    let maps: Vec<&str> = c.maps.iter().map(|s| s.as_str()).collect();
    let t0 = Instant::now();
    let out = drive::compile(c.tool, &c.src, &CompileOpts { mapfiles: maps, ..Default::default() });
    let ms = t0.elapsed().as_millis() as u64;
    let k = kind_name(c.tool.kind);
    let ok = out.bytes.is_some();
    let has_err = drive::has_error(&out.diag);
    let first_line = out.diag.lines().find(|l| !l.trim().is_empty()).unwrap_or("<no diagnostics>");
    let (class, viol);
    if let Some(p) = &out.panic {
        let sig = p.signature();
        class = sig.clone();
        viol = Some(format!("C04:{sig}"));
    } else if let Some(pos) = out.diag.find("<diagnostic rendering panicked: ") {
        let text = out.diag[pos + "<diagnostic rendering panicked: ".len()..].trim_end_matches('>').to_string();
        let sig = Panic { text }.signature();
        class = format!("render-{sig}");
        viol = Some(format!("C04:render-{sig}"));
    } else if ok && has_err {
        let l = normalise(first_error_line(&out.diag).unwrap_or(""), 80);
        class = format!("error-but-success:{l}");
        viol = Some(format!("C04:error-but-success:{k}:{l}"));
    } else if !ok && !has_err {
        let l = normalise(first_line, 80);
        class = format!("fails-without-error:{l}");
        viol = Some(format!("C04:fails-without-error:{k}:{l}"));
    } else if ms >= CASE_TIMEOUT.as_millis() as u64 {
        class = "slow".into();
        viol = Some(format!("C04:timeout:{}:{}", c.sigkey, k));
    } else if ok {
        class = if out.diag.lines().any(|l| l.starts_with("warning")) {
            format!("ok+{}", normalise(out.diag.lines().find(|l| l.starts_with("warning")).unwrap(), 60))
        } else { "ok".into() };
        viol = None;
    } else {
        class = normalise(first_error_line(&out.diag).unwrap_or(""), 60);
        viol = None;
    }
    Verdict { class, viol, ms, diag: out.diag, ok }
}

fn vm_hwm_kb() -> u64 {
    std::fs::read_to_string("/proc/self/status").ok().and_then(|s| {
        s.lines().find(|l| l.starts_with("VmHWM:")).and_then(|l| l.split_whitespace().nth(1).and_then(|x| x.parse().ok()))
    }).unwrap_or(0)
}

// =============================================================================================
// worker subprocess

fn worker_main(thorough: bool) -> ! {
    let h = std::thread::Builder::new().stack_size(WORKER_STACK).name("c04-case".into()).spawn(move || worker_loop(thorough)).expect("spawn worker thread");
    let _ = h.join();
    std::process::exit(0);
}

fn worker_loop(thorough: bool) {
    let stdin = std::io::stdin();
    let stdout = std::io::stdout();
    let mut line = String::new();
    loop {
        line.clear();
        match stdin.lock().read_line(&mut line) { Ok(0) | Err(_) => return, Ok(_) => {} }
        let req: Value = match serde_json::from_str(line.trim()) { Ok(v) => v, Err(_) => continue };
        let mut o = stdout.lock();
        if let Some(raw) = req.get("raw") {
            let c = match case_from_json(raw) { Some(c) => c, None => { let _ = writeln!(o, "R {}", json!({"error": "bad raw case"})); let _ = o.flush(); continue } };
            let _ = writeln!(o, "S 0"); let _ = o.flush();
            let v = eval_case(&c);
            let _ = writeln!(o, "R {}", json!({"class": v.class, "viol": v.viol, "ms": v.ms, "ok": v.ok, "diag": v.diag.chars().take(6000).collect::<String>()}));
            let _ = o.flush();
            continue;
        }
        let item = req["item"].as_str().unwrap_or("").to_string();
        let from = req["from"].as_u64().unwrap_or(0) as usize;
        let until = req["until"].as_u64().map(|x| x as usize);
        let want_diag = req["diag"].as_bool().unwrap_or(false);
        let cases = gen_cases(&item, thorough);
        let until = until.unwrap_or(cases.len()).min(cases.len());
        let mut classes: Vec<String> = vec![];
        let mut class_ix: HashMap<String, usize> = HashMap::new();
        let mut rows: Vec<Value> = vec![];
        let mut fails: BTreeMap<String, (u64, usize, usize)> = BTreeMap::new(); // sig -> (count, min len, index)
        let mut notes: Vec<Value> = vec![];
        let mut max_ms = (0u64, 0usize);
        let mut hwm = vm_hwm_kb();
        for k in from..until {
            let c = &cases[k];
            let _ = writeln!(o, "S {k}"); let _ = o.flush();
            let v = eval_case(c);
            if v.ms > max_ms.0 { max_ms = (v.ms, k); }
            let ix = *class_ix.entry(v.class.clone()).or_insert_with(|| { classes.push(v.class.clone()); classes.len() - 1 });
            rows.push(json!([format!("{:016x}", c.hash64()), ix]));
            let mut viol = v.viol.clone();
            let now = vm_hwm_kb();
            if now > hwm + (1 << 20) && c.src.len() < (1 << 20) && viol.is_none() {
                viol = Some(format!("C04:memory-exhaustion:{}:{}", c.sigkey, kind_name(c.tool.kind)));
            }
            hwm = hwm.max(now);
            if let Some(sig) = viol {
                let e = fails.entry(sig).or_insert((0, usize::MAX, k));
                e.0 += 1;
                if c.src.len() + c.maps.iter().map(|m| m.len()).sum::<usize>() < e.1 { e.1 = c.src.len() + c.maps.iter().map(|m| m.len()).sum::<usize>(); e.2 = k; }
            }
            if want_diag && v.class != "ok" { notes.push(json!({"index": k, "desc": c.desc, "class": v.class, "diag": v.diag.chars().take(3000).collect::<String>()})); }
        }
        let fails: Vec<Value> = fails.into_iter().map(|(s, (n, len, k))| json!({"sig": s, "count": n, "len": len, "index": k})).collect();
        let _ = writeln!(o, "R {}", json!({"total": cases.len(), "from": from, "until": until, "classes": classes, "rows": rows, "fails": fails,
            "notes": notes, "max_ms": max_ms.0, "max_ms_index": max_ms.1, "hwm_kb": hwm}));
        let _ = o.flush();
    }
}

fn case_to_json(c: &Case) -> Value {
    let mut v = json!({"tool": kind_name(c.tool.kind), "game": c.tool.game.as_str(), "maps": c.maps, "desc": c.desc, "sigkey": c.sigkey, "info_only": c.info_only});
    match std::str::from_utf8(&c.src) {
        Ok(s) if !s.contains('\0') => { v["src"] = json!(s); }
        _ => { v["src_hex"] = json!(hex(&c.src)); v["src_lossy"] = json!(String::from_utf8_lossy(&c.src)); }
    }
    v
}
fn case_from_json(v: &Value) -> Option<Case> {
    let kind = kind_from(v["tool"].as_str()?)?;
    let g = v["game"].as_str()?.parse::<Game>().ok()?;
    let src = if let Some(s) = v["src"].as_str() { s.as_bytes().to_vec() } else { unhex(v["src_hex"].as_str()?) };
    let maps = v["maps"].as_array().map(|a| a.iter().filter_map(|m| m.as_str().map(String::from)).collect()).unwrap_or_default();
    Some(Case { tool: Tool::new(kind, g), src, maps, desc: v["desc"].as_str().unwrap_or("").into(), info_only: v["info_only"].as_bool().unwrap_or(false), sigkey: v["sigkey"].as_str().unwrap_or("").into() })
}

// =============================================================================================
// parent side: worker handles

struct Worker { child: Child, stdin: ChildStdin, rx: mpsc::Receiver<String>, stderr: Arc<Mutex<Vec<u8>>> }

fn spawn_worker(tier: &str) -> Worker {
    let mut child = Command::new(drive::exe_snapshot())
        .args(["run", "C04", tier]).env(WORKER_ENV, "1").env("RUST_BACKTRACE", "0").env_remove("TRUTH_MAP_PATH")
        .stdin(Stdio::piped()).stdout(Stdio::piped()).stderr(Stdio::piped()).spawn().expect("spawn C04 worker");
    let stdin = child.stdin.take().unwrap();
    let stdout = child.stdout.take().unwrap();
    let mut stderr_pipe = child.stderr.take().unwrap();
    let (tx, rx) = mpsc::channel();
    std::thread::spawn(move || {
        let r = BufReader::with_capacity(1 << 16, stdout);
        for l in r.lines() { match l { Ok(l) => { if tx.send(l).is_err() { break; } }, Err(_) => break } }
    });
    let stderr = Arc::new(Mutex::new(Vec::new()));
    let se = stderr.clone();
    std::thread::spawn(move || {
        let mut buf = [0u8; 4096];
        loop {
            match stderr_pipe.read(&mut buf) {
                Ok(0) | Err(_) => break,
                Ok(n) => { let mut g = se.lock().unwrap(); if g.len() < (1 << 16) { g.extend_from_slice(&buf[..n]); } }
            }
        }
    });
    Worker { child, stdin, rx, stderr }
}

impl Worker {
    fn kill(mut self) -> String {
        let _ = self.child.kill();
        let st = self.child.wait().ok();
        std::thread::sleep(Duration::from_millis(20));
        let se = String::from_utf8_lossy(&self.stderr.lock().unwrap()).to_string();
        let tail: String = se.lines().rev().take(6).collect::<Vec<_>>().into_iter().rev().collect::<Vec<_>>().join(" | ");
        format!("status={} stderr={}", st.map(|s| s.to_string()).unwrap_or_else(|| "?".into()), tail.chars().take(400).collect::<String>())
    }
}

enum Attempt { Done(Value), Died { at: Option<usize>, how: String, timeout: bool } }

/// send one request, wait for its `R` line
fn attempt(slot: &mut Option<Worker>, tier: &str, req: &Value) -> Attempt {
    if slot.is_none() { *slot = Some(spawn_worker(tier)); }
    let w = slot.as_mut().unwrap();
    let sent = writeln!(w.stdin, "{req}").and_then(|_| w.stdin.flush());
    let mut cur: Option<usize> = None;
    if sent.is_ok() {
        loop {
            match w.rx.recv_timeout(CASE_TIMEOUT + Duration::from_secs(2)) {
                Ok(l) => {
                    if let Some(k) = l.strip_prefix("S ") { cur = k.trim().parse().ok(); }
                    else if let Some(r) = l.strip_prefix("R ") {
                        match serde_json::from_str::<Value>(r) { Ok(v) => return Attempt::Done(v), Err(e) => { let how = format!("unparsable worker result: {e}"); slot.take().map(|w| w.kill()); return Attempt::Died { at: None, how, timeout: false } } }
                    }
                },
                Err(mpsc::RecvTimeoutError::Timeout) => {
                    let how = slot.take().map(|w| w.kill()).unwrap_or_default();
                    return Attempt::Died { at: cur, how: format!("no answer within {} s; killed ({how})", CASE_TIMEOUT.as_secs()), timeout: true };
                },
                Err(mpsc::RecvTimeoutError::Disconnected) => break,
            }
        }
    }
    let how = slot.take().map(|w| w.kill()).unwrap_or_default();
    Attempt::Died { at: cur, how, timeout: false }
}

#[derive(Default)]
struct ItemAcc {
    total: usize,
    rows: Vec<(u64, String)>,             // (hash, class) of evaluated cases
    fails: Vec<(String, u64, usize, usize)>, // sig, count, len, index
    deaths: Vec<(usize, String, bool)>,   // confirmed: index, how, timeout
    machinery: Vec<String>,
    notes: Vec<Value>,
    max_ms: (u64, usize),
    hwm_kb: u64,
}

impl ItemAcc {
    fn merge(&mut self, v: &Value) {
        self.total = v["total"].as_u64().unwrap_or(0) as usize;
        let classes: Vec<String> = v["classes"].as_array().map(|a| a.iter().map(|c| c.as_str().unwrap_or("").to_string()).collect()).unwrap_or_default();
        for r in v["rows"].as_array().into_iter().flatten() {
            let h = u64::from_str_radix(r[0].as_str().unwrap_or("0"), 16).unwrap_or(0);
            self.rows.push((h, classes.get(r[1].as_u64().unwrap_or(0) as usize).cloned().unwrap_or_default()));
        }
        for f in v["fails"].as_array().into_iter().flatten() {
            self.fails.push((f["sig"].as_str().unwrap_or("").into(), f["count"].as_u64().unwrap_or(1), f["len"].as_u64().unwrap_or(0) as usize, f["index"].as_u64().unwrap_or(0) as usize));
        }
        for n in v["notes"].as_array().into_iter().flatten() { self.notes.push(n.clone()); }
        let ms = v["max_ms"].as_u64().unwrap_or(0);
        if ms > self.max_ms.0 { self.max_ms = (ms, v["max_ms_index"].as_u64().unwrap_or(0) as usize); }
        self.hwm_kb = self.hwm_kb.max(v["hwm_kb"].as_u64().unwrap_or(0));
    }
}

/// Run one item to completion, surviving worker deaths (replay-twice rule).
fn run_item(slot: &mut Option<Worker>, tier: &str, item: &str, want_diag: bool) -> ItemAcc {
    let mut acc = ItemAcc::default();
    let mut start = 0usize;
    let mut guard = 0;
    loop {
        guard += 1;
        if guard > 64 { acc.machinery.push(format!("{item}: too many worker deaths, item abandoned at case {start}")); break; }
        match attempt(slot, tier, &json!({"item": item, "from": start, "diag": want_diag})) {
            Attempt::Done(v) => { acc.merge(&v); break; },
            Attempt::Died { at: None, how, .. } => { acc.machinery.push(format!("{item}: worker died outside any case ({how})")); break; },
            Attempt::Died { at: Some(k), how, timeout } => {
                // confirm in a fresh worker
                slot.take().map(|w| w.kill());
                match attempt(slot, tier, &json!({"item": item, "from": k, "until": k + 1, "diag": want_diag})) {
                    Attempt::Done(v) => { acc.machinery.push(format!("{item}: case {k} killed a worker once ({how}) but not on re-run")); acc.merge(&v); },
                    Attempt::Died { how: how2, timeout: t2, .. } => { acc.deaths.push((k, format!("{how} // again: {how2}"), timeout || t2)); },
                }
                if k > start {
                    match attempt(slot, tier, &json!({"item": item, "from": start, "until": k, "diag": want_diag})) {
                        Attempt::Done(v) => acc.merge(&v),
                        Attempt::Died { at, how, .. } => acc.machinery.push(format!("{item}: re-run of cases {start}..{k} died at {at:?} ({how})")),
                    }
                }
                start = k + 1;
            },
        }
    }
    acc
}

// =============================================================================================
// source templates and seeds

const ANM_ENTRY: &str = r#"entry {
    path: "subdir/file.png",
    has_data: false,
    img_width: 512, img_height: 512, img_format: 3,
    sprites: {sprite0: {id: 0, x: 0.0, y: 0.0, w: 512.0, h: 480.0}},
}
"#;
const STD06_META: &str = r#"meta {
    unknown: 0,
    stage_name: "dm",
    bgm: [{path: "a.mid", name: "dm"}, {path: " ", name: " "}, {path: " ", name: " "}, {path: " ", name: " "}],
    objects: {},
    instances: [],
}
"#;
const STD12_META: &str = r#"meta {
    unknown: 0,
    anm_path: "stage01.anm",
    objects: {thing: {layer: 4, pos: [1.0, 2.0, 3.0], size: [1.0, 2.0, 3.0], quads: [rect {anm_script: 3, pos: [1.0, 2.0, 3.0], size: [4.0, 5.0]}]}},
    instances: [thing {pos: [4.0, 5.0, 6.0]}],
}
"#;
const MSG06_META: &str = "meta {\n    table: {0: {script: \"main\"}},\n}\n";
const MSG09_META: &str = "meta {\n    table: {0: {script: \"main\", flags: 256}},\n}\n";

/// Test instructions 2000.. used by the generated bodies (same shape in every language).
fn test_map(kind: Kind) -> String {
    let magic = match kind { Kind::Anm => "!anmmap", Kind::Std => "!stdmap", Kind::Msg => "!msgmap", Kind::End => "!endmap", Kind::Ecl => "!eclmap", Kind::Mission => "!msgmap" };
    let mut s = format!("{magic}\n!ins_signatures\n2000 S\n2001 f\n2002 SS\n2003 z(bs=4)\n2004 \n2005 Sf\n!ins_names\n2000 takeInt\n2001 takeFloat\n");
    if kind == Kind::Ecl { s += "!timeline_ins_signatures\n2000 S\n2001 f\n2004 \n"; }
    s
}

#[derive(Clone, Copy, PartialEq)]
struct Tpl { key: &'static str, kind: Kind, game: &'static str, head: &'static str, open: &'static str, close: &'static str, ireg: i32, freg: i32 }

const TPLS: &[Tpl] = &[
    Tpl { key: "anm12", kind: Kind::Anm, game: "th12", head: ANM_ENTRY, open: "script script0 {\n", close: "}\n", ireg: 10000, freg: 10004 },
    Tpl { key: "ecl08", kind: Kind::Ecl, game: "th08", head: "script timeline0 {}\n", open: "void sub0() {\n", close: "}\n", ireg: 10000, freg: 10016 },
    Tpl { key: "ecl06", kind: Kind::Ecl, game: "th06", head: "script timeline0 {}\n", open: "void sub0() {\n", close: "}\n", ireg: -10001, freg: -10005 },
    Tpl { key: "std12", kind: Kind::Std, game: "th12", head: STD12_META, open: "script main {\n", close: "}\n", ireg: 0, freg: 0 },
    Tpl { key: "msg12", kind: Kind::Msg, game: "th12", head: MSG09_META, open: "script main {\n", close: "}\n", ireg: 0, freg: 0 },
    Tpl { key: "anm06", kind: Kind::Anm, game: "th06", head: ANM_ENTRY, open: "script script0 {\n", close: "}\n", ireg: 0, freg: 0 },
    Tpl { key: "anm16", kind: Kind::Anm, game: "th16", head: ANM_ENTRY, open: "script script0 {\n", close: "}\n", ireg: 10000, freg: 10004 },
    Tpl { key: "ecl07", kind: Kind::Ecl, game: "th07", head: "script timeline0 {}\n", open: "void sub0() {\n", close: "}\n", ireg: 10000, freg: 10004 },
    Tpl { key: "std06", kind: Kind::Std, game: "th06", head: STD06_META, open: "script main {\n", close: "}\n", ireg: 0, freg: 0 },
    Tpl { key: "msg06", kind: Kind::Msg, game: "th06", head: MSG06_META, open: "script main {\n", close: "}\n", ireg: 0, freg: 0 },
    Tpl { key: "end10", kind: Kind::End, game: "th10", head: MSG06_META, open: "script main {\n", close: "}\n", ireg: 0, freg: 0 },
    Tpl { key: "tl08", kind: Kind::Ecl, game: "th08", head: "", open: "script timeline0 {\n", close: "}\nvoid sub0() {}\n", ireg: 0, freg: 0 },
];
fn tpl(key: &str) -> Tpl { *TPLS.iter().find(|t| t.key == key).unwrap_or_else(|| panic!("no template {key}")) }
impl Tpl {
    fn tool(&self) -> Tool { tool(self.kind, self.game) }
    fn wrap(&self, body: &str) -> String { format!("{}{}{}{}", self.head, self.open, body, self.close) }
    fn case(&self, body: &str, desc: impl Into<String>) -> Case { Case::new(self.tool(), self.wrap(body), &[&test_map(self.kind)], desc) }
    fn has_regs(&self) -> bool { self.ireg != 0 }
}

struct Seed { name: &'static str, kind: Kind, game: &'static str, src: String, map: Option<String> }

const ECL_NAMES_06: &str = "!eclmap\n!ins_names\n0 nop\n!gvar_names\n-10001 I0\n-10002 I1\n-10005 F0\n-10006 F1\n!difficulty_flags\n0 E-\n1 N-\n2 H-\n3 L-\n";
const ECL_NAMES_08: &str = "!eclmap\n!ins_names\n0 nop\n!gvar_names\n10000 I0\n10001 I1\n10016 F0\n10017 F1\n!difficulty_flags\n0 E-\n1 N-\n2 H-\n3 L-\n";
const ANM_NAMES: &str = "!anmmap\n!ins_names\n0 nop\n!gvar_names\n10000 I0\n10001 I1\n10004 F0\n10005 F1\n";

fn seeds() -> Vec<Seed> {
    let mut v = vec![];
    let mut add = |name: &'static str, kind: Kind, game: &'static str, src: String, map: Option<&str>| v.push(Seed { name, kind, game, src, map: map.map(String::from) });
    // ---- truanm
    add("anm06-basic", Kind::Anm, "th06", format!("{ANM_ENTRY}script 5 script0 {{\n    ins_1(@blob=\"01000000\");\n10:\n    ins_2(1.0, 2.0);\n    ins_0();\n}}\n"), None);
    add("anm06-jump", Kind::Anm, "th06", format!("{ANM_ENTRY}script script0 {{\n    ins_1(sprite0);\nlabel:\n+5:\n    ins_2(1.0, 2.0);\n    goto label;\n}}\nscript script1 {{\n    ins_15();\n}}\n"), None);
    add("anm12-expr", Kind::Anm, "th12", format!("{ANM_ENTRY}script script0 {{\n    int x = 3;\n    $REG[10000] = x * 2 + $REG[10001];\n+5:\n    if ($REG[10000] > 3) {{ %REG[10004] = 1.5; }} else {{ goto end; }}\n    times(3) {{ ins_1(); }}\nend:\n}}\n"), None);
    add("anm12-names", Kind::Anm, "th12", format!("{ANM_ENTRY}script -3 script0 {{\n    ins_3(sprite0);\ninterrupt[1]:\n    F0 = sin(F1) * 2.0;\n    loop {{\n+10:\n        nop();\n        if (I0 == 0) break;\n        I0 -= 1;\n    }}\n}}\nscript script1 {{\n    ins_88(script0);\n}}\n"), Some(ANM_NAMES));
    add("anm16-float", Kind::Anm, "th16", format!("{ANM_ENTRY}script script0 {{\n    float y = %REG[10004] + 1.0;\n    %REG[10005] = (y * 2.0) - (y / 3.0);\n    while ($REG[10000] < 10) {{ $REG[10000] += 1; }}\n-1:\n    ins_1();\n}}\n"), None);
    add("anm12-const", Kind::Anm, "th12", format!("const int N = 2 + 3;\n{ANM_ENTRY}script script0 {{\n    ins_6(N, $REG[10001]);\n    ins_7(1.0:2.0, rad(3.0));\n    unless (N != 5) {{ ins_0(); }}\n}}\n").replace("1.0:2.0", "1.5"), None);
    // ---- trustd
    add("std06-basic", Kind::Std, "th06", format!("{STD06_META}script main {{\n    ins_0(1.0, 2.0, 3.0);\n10:\n    ins_3(@blob=\"01000000 02000000 03000000\");\n}}\n"), None);
    add("std06-loop", Kind::Std, "th06", format!("{STD06_META}script main {{\n    ins_1(0x10, 20.0, 30.0);\n+100:\n    ins_2(1.0, 2.0, 3.0);\n-5:\n    ins_4();\n}}\n"), None);
    add("std12-basic", Kind::Std, "th12", format!("{STD12_META}script main {{\n    ins_2(1.0, 2.0, 3.0);\n10:\n    ins_3(60, 1, 1.0, 2.0, 3.0);\n30:\n    ins_0();\n}}\n"), None);
    add("std12-loop", Kind::Std, "th12", format!("{STD12_META}script main {{\n    loop {{\n        ins_7(0.5);\n    +30:\n        ins_0();\n    }}\n}}\n"), None);
    // ---- trumsg
    add("msg06-basic", Kind::Msg, "th06", format!("meta {{\n    table: {{0: {{script: \"script0\"}}, 3: {{script: \"other\"}}, default: {{script: \"script0\"}}}},\n}}\nscript script0 {{\n    ins_1(0, 2);\n10:\n    ins_3(0, 1, \"hello\");\n    ins_0();\n}}\nscript other {{\n    ins_4(42);\n}}\n"), None);
    add("msg09-basic", Kind::Msg, "th09", format!("{MSG09_META}script main {{\n    ins_1(@blob=\"01000200\");\n+60:\n    ins_16(\"text\");\n    ins_0();\n}}\n"), None);
    add("msg12-basic", Kind::Msg, "th12", format!("meta {{\n    table_len: 4,\n    table: {{0: {{script: \"main\", flags: 256}}, default: {{script: \"main\", flags: 3}}}},\n}}\nscript main {{\n    ins_2();\n5:\n    ins_17(\"line one\");\n    ins_0();\n}}\n"), None);
    add("end10-basic", Kind::End, "th10", format!("{MSG06_META}script main {{\n    ins_3(\"a line\");\n+30:\n    ins_5(1);\n    ins_0();\n}}\n"), None);
    add("mission095", Kind::Mission, "th095", "entry { stage: 1, scene: 2, face: 3, point: 4, text: [\"abc\", \"\", \"line three\"] }\nentry { stage: 10, scene: 6, face: 0, point: 1234567, text: [\"x\", \"y\", \"z\"] }\n".into(), None);
    add("mission125", Kind::Mission, "th125", "entry { stage: 1, scene: 2, player: 1, unknown_1: 7, unknown_2: 9, point_1: 3, point_2: 4,\n        furigana: [[1, 2], [3, 4], [5, 6]], text: [\"abc\", \"\", \"line three\", \"d\", \"e\", \"f\"] }\n".into(), None);
    // ---- truecl (olde)
    add("ecl06-subs", Kind::Ecl, "th06", "script timeline0 {\n    ins_0(@arg0=1, @blob=\"00000000 0000803f 00000040 04000300 02000000\");\n10:\n    ins_10(@arg0=0, @blob=\"01000000 02000000\");\n}\nvoid sub0() {\n    ins_0();\n5:\n    {\"2\"}: ins_4(@blob=\"10270000 05000000\");\n    {\"*\"}: ins_1(@blob=\"00000000\");\n}\nvoid sub1() {\n20:\n    ins_35(@blob=\"00000000 00000000 00000000\");\n}\n".into(), None);
    add("ecl06-expr", Kind::Ecl, "th06", "script timeline0 {}\nvoid sub0() {\n    int a = I0 + 2;\n    F0 = (F1 + 1.0) * 2.0;\n    I1 = 3:4:5:6;\n    {\"EN\"}: nop();\n    if (a < 5) { I0 = a; } else if (a == 7) { goto out; } else { I0 = -a; }\nout:\n    sub1(3, 1.5);\n}\nvoid sub1(int x, float y) {\n    I1 = x;\n    F1 = y;\n}\n".into(), Some(ECL_NAMES_06));
    add("ecl06-timeline", Kind::Ecl, "th06", "script timeline0 {\n    ins_0(sub0, 1.0, 2.0, 3.0, 4, 5, 6);\n+30:\n    ins_2(sub1, 1.0, 2.0, 3.0, 4, 5, 6);\n    ins_10(1, 2);\n}\nvoid sub0() {\n    loop { +1: nop(); }\n}\nvoid sub1() {\n    times(I1 = 4) { I0 += 1; }\n}\n".into(), Some(ECL_NAMES_06));
    add("ecl07-basic", Kind::Ecl, "th07", "script timeline0 {\n    ins_0(sub0, 1.0, 2.0, 3.0, 4, 5, 6);\n}\nscript timeline1 {\n7:\n    ins_11(4);\n}\nvoid sub0() {\n    $REG[10000] = $REG[10001] * 3 - 1;\n    %REG[10004] = cos(%REG[10005]);\n    {\"1\"}: ins_0();\n    do { $REG[10000] -= 1; } while ($REG[10000] > 0);\n}\n".into(), None);
    add("ecl07-call", Kind::Ecl, "th07", "script timeline0 {}\nvoid sub0() {\n    int i = 2;\n    float f = 0.5 + %REG[10004];\n    sub1(i, f);\n}\nvoid sub1(int a, float b) {\n    $REG[10000] = a;\n    %REG[10004] = b;\n    return;\n}\n".into(), None);
    add("ecl08-expr", Kind::Ecl, "th08", "script timeline0 {}\nvoid sub0() {\n    int a = I0 + 2;\n    F0 = (F1 + 1.0) * 2.0;\n    I1 = 3:4:5:6;\n    {\"H\"}: nop();\n    if (a < 5 && I1 != 0) { I0 = a; } else { I0 = a > 3 ? 1 : 2; }\n    I0 = -I1 + (a % 2);\n}\n".into(), Some(ECL_NAMES_08));
    add("ecl08-timeline", Kind::Ecl, "th08", "script 1 second {\n    ins_0(sub0, 1.0, 2.0, 4, 5, 6);\n10:\n    ins_9(3);\n}\nscript 0 first {\n    ins_16();\n}\nvoid sub0() {\nagain:\n    ins_0();\n+8:\n    if ($REG[10000] != 0) goto again;\n    sub1();\n}\nvoid sub1() {}\n".into(), None);
    add("ecl08-call", Kind::Ecl, "th08", "script timeline0 {}\nconst float K = 1.5;\nvoid sub0() {\n    sub1(1, 2, K, $REG[10000]);\n    times(3) { sub1(0, 0, 0.0, 0); }\n}\nvoid sub1(int a, int b, float c, int d) {\n    $REG[10000] = a + b + d;\n    %REG[10016] = c;\n}\n".into(), None);
    v
}

// =============================================================================================
// (ii) token edits

/// A deliberately simple lexer: only the granularity of the edits depends on it.
fn lex(src: &str) -> Vec<(usize, usize)> {
    let b = src.as_bytes();
    let mut out = vec![];
    let mut i = 0;
    const OPS: &[&str] = &[">>>=", "<<=", ">>=", ">>>", "...", "==", "!=", "<=", ">=", "<<", ">>", "&&", "||", "++", "--", "+=", "-=", "*=", "/=", "%=", "|=", "&=", "^="];
    while i < b.len() {
        let c = b[i];
        if c.is_ascii_whitespace() { i += 1; continue; }
        if c == b'/' && b.get(i + 1) == Some(&b'/') { while i < b.len() && b[i] != b'\n' { i += 1; } continue; }
        if c == b'/' && b.get(i + 1) == Some(&b'*') { i += 2; while i < b.len() && !(b[i] == b'*' && b.get(i + 1) == Some(&b'/')) { i += 1; } i = (i + 2).min(b.len()); continue; }
        let s = i;
        if c == b'"' {
            i += 1;
            while i < b.len() && b[i] != b'"' { if b[i] == b'\\' { i += 1; } i += 1; }
            i = (i + 1).min(b.len());
        } else if c.is_ascii_digit() {
            while i < b.len() && (b[i].is_ascii_alphanumeric() || b[i] == b'_') { i += 1; }
            if i + 1 < b.len() && b[i] == b'.' && (b[i + 1].is_ascii_digit() || b[i + 1] == b'f') { i += 1; while i < b.len() && b[i].is_ascii_alphanumeric() { i += 1; } }
        } else if c.is_ascii_alphabetic() || c == b'_' {
            while i < b.len() && (b[i].is_ascii_alphanumeric() || b[i] == b'_') { i += 1; }
            if &src[s..i] == "rad" && b.get(i) == Some(&b'(') {
                if let Some(e) = src[i..].find(')') { if src[i + 1..i + e].bytes().all(|x| x.is_ascii_digit() || b".-+f".contains(&x)) { i += e + 1; } }
            }
        } else if c >= 0x80 {
            while i < b.len() && b[i] >= 0x80 { i += 1; }
        } else if let Some(op) = OPS.iter().find(|op| src[i..].starts_with(**op)) {
            i += op.len();
        } else { i += 1; }
        out.push((s, i));
    }
    out
}

const REPL: &[&str] = &[
    // the quick subset comes first
    ";", "{", "}", "(", ":", "@", "-", "2147483648", "\"s\"", "ins_65536", "$REG[10000]", "x",
    ")", ",", "#", "$", "%", "+", "=", "==", "0", "-1", "4294967296", "0x100000000", "1.0", "99999999999999999999.0", "\"\"",
    "ins_0", "ins_99999999999", "REG[0]", "REG[-2147483648]", "int", "float", "void", "const", "if", "else", "goto", "loop", "times", "break",
    "offsetof(x)", "timeof(x)", "rad(1.0)", "INF", "NAN", "sprite0", "script0", "interrupt[1]:", "+5:", "{\"*\"}:", "!ENH", "[", "]", "?", ".", "async", "return", "while", "1e39", "entry", "meta", "script",
];
const REPL_QUICK: usize = 12;

fn tok_cases(seed_ix: usize, op: &str, seeds: &[Seed]) -> Vec<Case> {
    let s = &seeds[seed_ix];
    let src = &s.src;
    let toks = lex(src);
    let t = tool(s.kind, s.game);
    let maps: Vec<&str> = s.map.iter().map(|m| m.as_str()).collect();
    let mk = |text: String, desc: String| Case::new(t, text, &maps, desc);
    let mut out = vec![];
    let parts: Vec<&str> = op.split('=').collect();
    match parts[0] {
        "del" => for (i, &(a, b)) in toks.iter().enumerate() { out.push(mk(format!("{}{}", &src[..a], &src[b..]), format!("{}: delete token {i} `{}`", s.name, &src[a..b]))); },
        "dup" => for (i, &(a, b)) in toks.iter().enumerate() { out.push(mk(format!("{} {}{}", &src[..b], &src[a..b], &src[b..]), format!("{}: duplicate token {i} `{}`", s.name, &src[a..b]))); },
        "swap" => for i in 0..toks.len().saturating_sub(1) {
            let ((a, b), (c, d)) = (toks[i], toks[i + 1]);
            out.push(mk(format!("{}{}{}{}{}", &src[..a], &src[c..d], &src[b..c], &src[a..b], &src[d..]), format!("{}: swap tokens {i},{} `{}` `{}`", s.name, i + 1, &src[a..b], &src[c..d])));
        },
        "rep" => { let r = REPL[parts[1].parse::<usize>().unwrap()];
            for (i, &(a, b)) in toks.iter().enumerate() { out.push(mk(format!("{}{}{}", &src[..a], r, &src[b..]), format!("{}: replace token {i} `{}` by `{r}`", s.name, &src[a..b]))); } },
        "del2" => for i in 0..toks.len() { for j in i + 1..toks.len() {
            let ((a, b), (c, d)) = (toks[i], toks[j]);
            out.push(mk(format!("{}{}{}", &src[..a], &src[b..c], &src[d..]), format!("{}: delete tokens {i},{j}", s.name)));
        } },
        _ => panic!("bad token op {op}"),
    }
    out
}

// =============================================================================================
// (iii) byte edits

const BYTE_INS: &[&[u8]] = &[b"\x00", b"\xff", b"\"", b"\\", b"{", b"}", b"(", b")", b"/", b"*", b":", b";", b"@", b"#", "é".as_bytes(), "日".as_bytes(), b"\xc3"];

fn smallest_seeds(seeds: &[Seed], n: usize) -> Vec<usize> {
    let mut ix: Vec<usize> = (0..seeds.len()).collect();
    ix.sort_by_key(|&i| (seeds[i].src.len(), i));
    ix.truncate(n);
    ix
}

fn byte_cases(seed_ix: usize, op: &str, seeds: &[Seed], thorough: bool) -> Vec<Case> {
    let s = &seeds[seed_ix];
    let src = s.src.as_bytes();
    let t = tool(s.kind, s.game);
    let maps: Vec<&str> = s.map.iter().map(|m| m.as_str()).collect();
    let step = if thorough { 1 } else { 3 };
    let mut out = vec![];
    if op == "trunc" {
        for i in (0..src.len()).step_by(step) { out.push(Case::new(t, &src[..i], &maps, format!("{}: truncate at byte {i}", s.name))); }
    } else {
        let ins = BYTE_INS[op.parse::<usize>().unwrap()];
        for i in (0..=src.len()).step_by(step) {
            let mut v = src[..i].to_vec(); v.extend_from_slice(ins); v.extend_from_slice(&src[i..]);
            out.push(Case::new(t, v, &maps, format!("{}: insert bytes {} at offset {i}", s.name, hex(ins))));
        }
    }
    out
}

// =============================================================================================
// item table

fn items(thorough: bool) -> Vec<String> {
    let seeds = seeds();
    let mut v = vec!["seed".to_string()];
    v.extend(other_items(thorough));
    for &i in &smallest_seeds(&seeds, 10) {
        v.push(format!("byte:{i}:trunc"));
        for j in 0..BYTE_INS.len() { v.push(format!("byte:{i}:{j}")); }
    }
    for i in 0..seeds.len() {
        v.push(format!("tok:{i}:del"));
        if thorough { v.push(format!("tok:{i}:dup")); v.push(format!("tok:{i}:swap")); }
    }
    for j in 0..(if thorough { REPL.len() } else { REPL_QUICK }) { for i in 0..seeds.len() { v.push(format!("tok:{i}:rep={j}")); } }
    if thorough { for &i in &smallest_seeds(&seeds, 5) { v.push(format!("tok:{i}:del2")); } }
    v
}

fn other_items(_thorough: bool) -> Vec<String> { vec![] }

fn family_of(item: &str) -> &str { item.split(':').next().unwrap_or("") }

fn gen_cases(item: &str, thorough: bool) -> Vec<Case> {
    let parts: Vec<&str> = item.split(':').collect();
    let mut cases = match parts[0] {
        "seed" => seeds().iter().map(|s| { let maps: Vec<&str> = s.map.iter().map(|m| m.as_str()).collect(); Case::new(tool(s.kind, s.game), s.src.clone(), &maps, format!("seed {}", s.name)) }).collect(),
        "tok" => tok_cases(parts[1].parse().unwrap(), parts[2], &seeds()),
        "byte" => byte_cases(parts[1].parse().unwrap(), parts[2], &seeds(), thorough),
        _ => panic!("unknown item {item}"),
    };
    for c in &mut cases { if c.sigkey.is_empty() { c.sigkey = parts[0].to_string(); } }
    cases
}

// =============================================================================================
// run

pub fn run(tier: &str) -> Report {
    let thorough = tier == "thorough";
    if std::env::var(WORKER_ENV).is_ok() { worker_main(thorough); }
    let mut rep = Report::new("C04", tier, "fault_enumeration");
    rep.rule = "the outcome class (ok / first error line class / panic) differs from the seed's outcome `ok`, i.e. the tool noticed the fault".into();
    let only: Option<Vec<String>> = std::env::var("VERIF_C04_FAMILIES").ok().map(|s| s.split(',').map(String::from).collect());
    let all_items: Vec<String> = items(thorough).into_iter().filter(|i| only.as_ref().map_or(true, |o| o.iter().any(|f| f == family_of(i)))).collect();
    let deadline = rep.deadline();
    let next = AtomicUsize::new(0);
    let results: Mutex<Vec<Option<ItemAcc>>> = Mutex::new((0..all_items.len()).map(|_| None).collect());
    let _ = drive::exe_snapshot();
    std::thread::scope(|s| {
        for _ in 0..crate::common::n_threads().min(all_items.len().max(1)) {
            s.spawn(|| {
                let mut slot: Option<Worker> = None;
                loop {
                    let i = next.fetch_add(1, Ordering::Relaxed);
                    if i >= all_items.len() || Instant::now() > deadline { break; }
                    let acc = run_item(&mut slot, tier, &all_items[i], family_of(&all_items[i]) == "seed");
                    results.lock().unwrap()[i] = Some(acc);
                }
                if let Some(w) = slot.take() { drop(w.stdin); let mut c = w.child; let _ = c.wait(); }
            });
        }
    });
    let results = results.into_inner().unwrap();

    // ---- merge, in item order
    let mut seen: HashSet<u64> = HashSet::new();
    let mut nontrivial: HashSet<u64> = HashSet::new();
    let mut fam_counts: BTreeMap<String, (u64, u64, u64)> = BTreeMap::new(); // generated, evaluated, noticed
    let mut fail_best: BTreeMap<String, (u64, usize, String, usize)> = BTreeMap::new(); // sig -> count, len, item, index
    let mut slowest = (0u64, String::new(), 0usize);
    let mut hwm = 0u64;
    let mut not_run = 0usize;
    let mut nest_deaths: BTreeMap<String, Value> = BTreeMap::new();
    for (item, acc) in all_items.iter().zip(results.iter()) {
        let fam = family_of(item).to_string();
        let acc = match acc { Some(a) => a, None => { not_run += 1; continue } };
        let e = fam_counts.entry(fam.clone()).or_insert((0, 0, 0));
        e.0 += acc.total as u64;
        rep.transitions += acc.total as u64;
        for (h, class) in &acc.rows {
            e.1 += 1;
            rep.evaluations += 1;
            seen.insert(*h);
            if class != "ok" { e.2 += 1; nontrivial.insert(*h); }
            rep.outcome(&format!("{fam}|{class}"));
        }
        for (sig, n, len, ix) in &acc.fails {
            let b = fail_best.entry(sig.clone()).or_insert((0, usize::MAX, item.clone(), *ix));
            b.0 += n;
            if *len < b.1 { b.1 = *len; b.2 = item.clone(); b.3 = *ix; }
        }
        for (k, how, timeout) in &acc.deaths {
            let cases = gen_cases(item, thorough);
            let c = &cases[*k];
            rep.evaluations += 1; e.1 += 1;
            seen.insert(c.hash64()); nontrivial.insert(c.hash64());
            let what = if *timeout { "timeout" } else { "abort" };
            rep.outcome(&format!("{fam}|{what}{}", if c.info_only { " (beyond the property's bound; information only)" } else { "" }));
            if fam == "nest" { nest_deaths.entry(format!("{}:{}", c.sigkey, kind_name(c.tool.kind))).or_insert(json!({"first_death": c.desc, "how": how, "violation": !c.info_only})); }
            if c.info_only { continue; }
            let sig = format!("C04:{what}:{}:{}", c.sigkey, kind_name(c.tool.kind));
            let len = c.src.len();
            let b = fail_best.entry(sig).or_insert((0, usize::MAX, item.clone(), *k));
            b.0 += 1;
            if len < b.1 { b.1 = len; b.2 = item.clone(); b.3 = *k; }
        }
        for m in &acc.machinery { rep.machinery_errors.push(m.clone()); }
        if fam == "seed" {
            for n in &acc.notes { rep.machinery_errors.push(format!("seed does not compile cleanly: {} -> {} :: {}", n["desc"].as_str().unwrap_or(""), n["class"].as_str().unwrap_or(""), n["diag"].as_str().unwrap_or(""))); }
        }
        if acc.max_ms.0 > slowest.0 { slowest = (acc.max_ms.0, item.clone(), acc.max_ms.1); }
        hwm = hwm.max(acc.hwm_kb);
    }
    rep.states = seen.len() as u64;
    rep.nontrivial = nontrivial.len() as u64;
    rep.traces_validated = rep.evaluations;

    // ---- failures: one per signature, minimal witness
    let mut failure_counts = serde_json::Map::new();
    for (sig, (count, _len, item, ix)) in &fail_best {
        let cases = gen_cases(item, thorough);
        let c = &cases[*ix];
        failure_counts.insert(sig.clone(), json!(count));
        rep.fail(sig.clone(), detail_of(c, item, *ix, thorough));
    }
    rep.extra.insert("failure_counts".into(), Value::Object(failure_counts));
    rep.extra.insert("family_counts".into(), json!(fam_counts.iter().map(|(k, v)| (k.clone(), json!({"generated": v.0, "evaluated": v.1, "noticed": v.2}))).collect::<serde_json::Map<_, _>>()));
    rep.extra.insert("slowest_case".into(), json!({"ms": slowest.0, "item": slowest.1, "index": slowest.2}));
    rep.extra.insert("worker_max_rss_kb".into(), json!(hwm));
    rep.extra.insert("nesting_deaths".into(), json!(nest_deaths));
    rep.extra.insert("items".into(), json!(all_items.len()));

    // ---- samples
    let done: Vec<usize> = (0..all_items.len()).filter(|&i| results[i].as_ref().map_or(false, |a| !a.rows.is_empty())).collect();
    if !done.is_empty() {
        for &i in &[done[0], done[done.len() / 3], done[done.len() / 2], done[2 * done.len() / 3], done[done.len() - 1]] {
            let cases = gen_cases(&all_items[i], thorough);
            let acc = results[i].as_ref().unwrap();
            let k = (acc.rows.len() / 2).min(cases.len() - 1);
            rep.sample(json!({"item": all_items[i], "index": k, "desc": cases[k].desc, "tool": cases[k].tool.name(),
                "src": String::from_utf8_lossy(&cases[k].src).chars().take(400).collect::<String>(), "outcome": acc.rows.get(k).map(|r| r.1.clone())}));
        }
    }

    if not_run > 0 { rep.cap_hit = Some(format!("wall cap: {not_run} of {} items not run", all_items.len())); }
    rep.exhaustive = not_run == 0 && only.is_none();
    rep.bound_completed = format!("{} items ({}); families: {}", all_items.len() - not_run,
        if thorough { "thorough: all token ops x all replacement tokens, every byte offset, nesting to 4096" } else { "quick: token delete + 12 replacements, every 3rd byte offset, nesting to 256" },
        fam_counts.iter().map(|(k, v)| format!("{k}={}", v.1)).collect::<Vec<_>>().join(" "));
    rep.assumptions = vec![
        "in-process driver (drive::compile) mirrors cli_def::*_compile::run; `#pragma mapfile`/image sources are not followed".into(),
        "every case ran in a worker subprocess on an 8 MiB-stack thread (the CLI's main-thread stack); the harness build is opt-level 2 with debug assertions and overflow checks".into(),
        "`all byte strings` is approximated by the edit-distance-1 ball (token and byte level) around the seeds plus the generated families".into(),
    ];
    rep.explanation = "error <=> failure, no panic / abort / timeout, checked on every generated input; one Failure per signature with the shortest witness".into();
    rep
}

fn detail_of(c: &Case, item: &str, ix: usize, thorough: bool) -> Value {
    let mut d = case_to_json(c);
    d["family"] = json!(family_of(item));
    d["gen"] = json!({"item": item, "index": ix, "thorough": thorough});
    let big = c.src.len() > 2048 || c.maps.iter().any(|m| m.len() > 4096);
    if big {
        // keep a readable prefix; replay rebuilds the full input from `gen`
        d.as_object_mut().unwrap().remove("src"); d.as_object_mut().unwrap().remove("src_hex"); d.as_object_mut().unwrap().remove("src_lossy");
        d["src_prefix"] = json!(String::from_utf8_lossy(&c.src).chars().take(1500).collect::<String>());
        d["src_len"] = json!(c.src.len());
        d["maps"] = json!(c.maps.iter().map(|m| m.chars().take(1500).collect::<String>()).collect::<Vec<_>>());
        d["truncated"] = json!(true);
    }
    d
}

// =============================================================================================
// replay

pub fn replay(detail: &Value) -> i32 {
    if std::env::var(WORKER_ENV).is_ok() { worker_main(false); }
    let case = if detail["truncated"].as_bool().unwrap_or(false) || (detail.get("src").is_none() && detail.get("src_hex").is_none()) {
        let item = detail["gen"]["item"].as_str().unwrap_or("");
        let ix = detail["gen"]["index"].as_u64().unwrap_or(0) as usize;
        let th = detail["gen"]["thorough"].as_bool().unwrap_or(false);
        match crate::common::catch(|| gen_cases(item, th)) { Ok(cs) if ix < cs.len() => cs[ix].clone(), _ => { println!("cannot rebuild case from generator descriptor {item}#{ix}"); return 2 } }
    } else {
        match case_from_json(detail) { Some(c) => c, None => { println!("malformed replay detail"); return 2 } }
    };
    println!("C04 replay: {} [{}] {} bytes, {} mapfile(s)", case.desc, case.tool.name(), case.src.len(), case.maps.len());
    let show: String = String::from_utf8_lossy(&case.src).chars().take(1200).collect();
    println!("--- input ---\n{show}\n--- end ---");
    for m in &case.maps { println!("--- mapfile ---\n{}\n--- end ---", m.chars().take(1200).collect::<String>()); }
    // the worker for a replay is `replay C04 <file>`?  No: spawn the ordinary `run C04 quick` worker.
    let mut slot: Option<Worker> = None;
    let mut verdicts = vec![];
    for round in 0..2 {
        match attempt(&mut slot, "quick", &json!({"raw": case_to_json(&case)})) {
            Attempt::Done(v) => {
                println!("run {round}: outcome class = {}  (ok={}, {} ms)", v["class"].as_str().unwrap_or("?"), v["ok"], v["ms"]);
                if round == 0 { println!("--- diagnostics ---\n{}\n--- end ---", v["diag"].as_str().unwrap_or("")); }
                match v["viol"].as_str() { Some(s) => { println!("VIOLATES: {s}"); verdicts.push(true) }, None => { println!("holds: error <=> failure, no panic"); verdicts.push(false) } }
            },
            Attempt::Died { how, timeout, .. } => {
                println!("run {round}: worker {} ({how})", if timeout { "timed out" } else { "died" });
                if case.info_only { println!("(beyond the property's bound: information only)"); verdicts.push(false) } else { println!("VIOLATES: C04:{}:{}:{}", if timeout { "timeout" } else { "abort" }, case.sigkey, kind_name(case.tool.kind)); verdicts.push(true) }
            },
        }
    }
    if let Some(w) = slot.take() { w.kill(); }
    drive::cleanup_scratch();
    if verdicts.iter().all(|&v| v) { 1 } else { 0 }
}
