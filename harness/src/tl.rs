//! Test-language pipeline: the harness writes its own mapfile (so it *knows* what every opcode means),
//! drives the real parser / passes / Lowerer / Raiser, and owns M1, an independent machine that
//! executes the emitted RawInstrs.

use std::collections::BTreeMap;

use truth::{ast, llir, Truth, RegId, ScalarValue, ScalarType as Ty, LanguageKey};
use truth::llir::RawInstr;
use truth::vm::AstVm;

use crate::common::{catch, Panic};

// ---------------------------------------------------------------------------------------------
// The harness's own description of an instruction table

#[derive(Debug, Clone, Copy, PartialEq, Eq, PartialOrd, Ord)]
pub enum K {
    Jmp,
    CountJmpNe,
    CountJmpGt,
    Assign(&'static str, bool),  // (op text like "=", "+=" ; is_float)
    Bin(&'static str, bool),     // (op text, arg is_float)
    Un(&'static str, bool),
    CondJmp(&'static str, bool),
    Cmp(bool),
    CmpJmp(&'static str),
    Interrupt,
}

#[derive(Debug, Clone, PartialEq, Eq, PartialOrd, Ord)]
pub struct Entry { pub opcode: u16, pub sig: String, pub kind: Option<K>, pub name: Option<String> }

#[derive(Debug, Clone, Copy, PartialEq, Eq, PartialOrd, Ord)]
pub enum JumpOrder { OT, TO, O }

#[derive(Debug, Clone, PartialEq, Eq, PartialOrd, Ord)]
pub struct TableCfg {
    pub native_unops: bool,      // native -x, ~x?  (else fall back via binops)
    pub native_sincos: bool,
    pub assign_ops: bool,        // in-place += etc.
    pub two_part_cmp: bool,      // cmp + jmp instead of CondJmp
    pub count_gt: bool,          // CountJmp flavour
    pub count_jmp: bool,         // any CountJmp at all
    pub jump_order: JumpOrder,
    pub pad_jumps: bool,         // insert padding in jump-ish signatures
    pub bitwise: bool,           // bitwise/shift/logical binops available
    pub cmp_binops: bool,        // comparison-as-value binops
}

impl TableCfg {
    pub const FULL: TableCfg = TableCfg {
        native_unops: true, native_sincos: true, assign_ops: true, two_part_cmp: false, count_gt: false, count_jmp: true,
        jump_order: JumpOrder::OT, pad_jumps: false, bitwise: true, cmp_binops: true,
    };
    pub fn name(&self) -> String {
        format!("un{}sc{}as{}tp{}cg{}cj{}jo{:?}pad{}bw{}cb{}", self.native_unops as u8, self.native_sincos as u8, self.assign_ops as u8,
            self.two_part_cmp as u8, self.count_gt as u8, self.count_jmp as u8, self.jump_order, self.pad_jumps as u8, self.bitwise as u8, self.cmp_binops as u8)
    }
    pub fn variants() -> Vec<TableCfg> {
        let f = TableCfg::FULL;
        vec![
            f.clone(),
            TableCfg { native_unops: false, ..f.clone() },
            TableCfg { assign_ops: false, ..f.clone() },
            TableCfg { two_part_cmp: true, ..f.clone() },
            TableCfg { count_gt: true, ..f.clone() },
            TableCfg { jump_order: JumpOrder::TO, ..f.clone() },
            TableCfg { jump_order: JumpOrder::O, ..f.clone() },
            TableCfg { pad_jumps: true, ..f.clone() },
            TableCfg { native_unops: false, assign_ops: false, two_part_cmp: true, count_gt: true, jump_order: JumpOrder::TO, pad_jumps: true, ..f.clone() },
            TableCfg { native_sincos: false, count_jmp: false, ..f.clone() },
        ]
    }
}

pub const ARITH: [&str; 5] = ["+", "-", "*", "/", "%"];
pub const CMPS: [&str; 6] = ["==", "!=", "<", "<=", ">", ">="];
pub const BITS: [&str; 8] = ["|", "^", "&", "||", "&&", "<<", ">>", ">>>"];

pub const ANTI_SCRATCH_OPCODE: u16 = 99;
pub const NOP_OPCODE: u16 = 70;

#[derive(Debug, Clone)]
pub struct Table { pub cfg: TableCfg, pub entries: Vec<Entry>, pub by_opcode: BTreeMap<u16, usize>,
    /// EoSD-style languages: an argument is a register iff its value is one of these ids (no param mask)
    pub regs_by_value: Option<std::collections::BTreeSet<i32>> }

impl Table {
    pub fn new(cfg: &TableCfg) -> Table {
        let mut e: Vec<Entry> = vec![];
        let next = std::cell::Cell::new(1u16);
        let add = |sig: String, kind: Option<K>, name: Option<&str>, e: &mut Vec<Entry>| {
            let opcode = next.get(); next.set(opcode + 1);
            e.push(Entry { opcode, sig, kind, name: name.map(|s| s.to_string()) });
        };
        let jsig = |pre: &str| -> String {
            let j = match cfg.jump_order { JumpOrder::OT => "ot", JumpOrder::TO => "to", JumpOrder::O => "o" };
            if cfg.pad_jumps { format!("{pre}{j}_") } else { format!("{pre}{j}") }
        };
        add(jsig(""), Some(K::Jmp), None, &mut e);
        if cfg.count_jmp {
            add(jsig("S"), Some(if cfg.count_gt { K::CountJmpGt } else { K::CountJmpNe }), None, &mut e);
        }
        add("S".into(), Some(K::Interrupt), None, &mut e);
        if cfg.native_sincos {
            add("ff".into(), Some(K::Un("sin", true)), None, &mut e);
            add("ff".into(), Some(K::Un("cos", true)), None, &mut e);
            add("ff".into(), Some(K::Un("sqrt", true)), None, &mut e);
        }
        if cfg.native_unops {
            add("SS".into(), Some(K::Un("-", false)), None, &mut e);
            add("ff".into(), Some(K::Un("-", true)), None, &mut e);
            add("SS".into(), Some(K::Un("~", false)), None, &mut e);
            add("SS".into(), Some(K::Un("!", false)), None, &mut e);
        }
        add("SS".into(), Some(K::Assign("=", false)), None, &mut e);
        add("ff".into(), Some(K::Assign("=", true)), None, &mut e);
        if cfg.assign_ops {
            for op in ["+=", "-=", "*=", "/=", "%="] {
                add("SS".into(), Some(K::Assign(op, false)), None, &mut e);
                add("ff".into(), Some(K::Assign(op, true)), None, &mut e);
            }
            if cfg.bitwise {
                for op in ["|=", "^=", "&=", "<<=", ">>=", ">>>="] {
                    add("SS".into(), Some(K::Assign(op, false)), None, &mut e);
                }
            }
        }
        for op in ARITH {
            add("SSS".into(), Some(K::Bin(op, false)), None, &mut e);
            add("fff".into(), Some(K::Bin(op, true)), None, &mut e);
        }
        if cfg.cmp_binops {
            for op in CMPS {
                add("SSS".into(), Some(K::Bin(op, false)), None, &mut e);
                add("Sff".into(), Some(K::Bin(op, true)), None, &mut e);
            }
        }
        if cfg.bitwise {
            for op in BITS { add("SSS".into(), Some(K::Bin(op, false)), None, &mut e); }
        }
        if cfg.two_part_cmp {
            add("SS".into(), Some(K::Cmp(false)), None, &mut e);
            add("ff".into(), Some(K::Cmp(true)), None, &mut e);
            for op in CMPS { add(jsig(""), Some(K::CmpJmp(op)), None, &mut e); }
        } else {
            for op in CMPS {
                add(jsig("SS"), Some(K::CondJmp(op, false)), None, &mut e);
                add(jsig("ff"), Some(K::CondJmp(op, true)), None, &mut e);
            }
        }
        assert!(next.get() < NOP_OPCODE + 29, "opcode space");
        // plain instructions (opcodes >= 100)
        next.set(100);
        e.push(Entry { opcode: NOP_OPCODE + 29, sig: "".into(), kind: None, name: Some("nop".into()) });
        e.push(Entry { opcode: ANTI_SCRATCH_OPCODE, sig: "".into(), kind: None, name: Some("antiscratch".into()) });
        for (sig, name) in [("", "m0"), ("S", "mS"), ("f", "mf"), ("SS", "mSS"), ("Sf", "mSf"), ("fS", "mfS"), ("ff", "mff"), ("SSS", "mSSS"), ("fff", "mfff"), ("SfSf", "mSfSf")] {
            add(sig.into(), None, Some(name), &mut e);
        }
        let by_opcode = e.iter().enumerate().map(|(i, x)| (x.opcode, i)).collect();
        Table { cfg: cfg.clone(), entries: e, by_opcode, regs_by_value: None }
    }

    /// Build a table from a game's built-in (core) mapfile: opcode -> (signature string, intrinsic string) is data
    /// shipped with truth; the *meaning* of each intrinsic kind is M1's own.  `extra` adds user marker instructions.
    pub fn from_core(game: truth::Game, language: LanguageKey, extra: &[(u16, &str, &str)], regs_by_value: bool) -> Table {
        let mut scope = truth::Builder::new().capture_diagnostics(true).build();
        let mut truth = scope.truth();
        let m = truth::verif_hooks::core_mapfile(truth.ctx().emitter, game, language);
        let intr: BTreeMap<i32, String> = m.ins_intrinsics.iter().map(|(k, v)| (*k, v.value.clone())).collect();
        let mut e: Vec<Entry> = vec![];
        for (op, sig) in &m.ins_signatures {
            let kind = intr.get(op).and_then(|s| parse_intrinsic(s));
            e.push(Entry { opcode: *op as u16, sig: sig.value.clone(), kind, name: None });
        }
        for (op, name, sig) in extra { e.push(Entry { opcode: *op, sig: sig.to_string(), kind: None, name: Some(name.to_string()) }); }
        let by_opcode = e.iter().enumerate().map(|(i, x)| (x.opcode, i)).collect();
        let regs = if regs_by_value { Some(m.gvar_types.iter().map(|(k, _)| *k).collect()) } else { None };
        Table { cfg: TableCfg::FULL, entries: e, by_opcode, regs_by_value: regs }
    }

    pub fn get(&self, opcode: u16) -> Option<&Entry> { self.by_opcode.get(&opcode).map(|&i| &self.entries[i]) }
    pub fn opcode_of_name(&self, name: &str) -> u16 { self.entries.iter().find(|e| e.name.as_deref() == Some(name)).unwrap().opcode }
    pub fn has(&self, k: K) -> bool { self.entries.iter().any(|e| e.kind == Some(k)) }

    pub fn mapfile_text(&self, regs: &[RegSpec]) -> String {
        let mut s = String::from("!anmmap\n!gvar_types\n");
        for r in regs { s += &format!("{} {}\n", r.id, if r.float { "%" } else { "$" }); }
        s += "!gvar_names\n";
        for r in regs { if let Some(n) = r.name { s += &format!("{} {}\n", r.id, n); } }
        s += "!ins_names\n";
        for e in &self.entries { if let Some(n) = &e.name { s += &format!("{} {}\n", e.opcode, n); } }
        s += "!ins_signatures\n";
        for e in &self.entries { s += &format!("{} {}\n", e.opcode, e.sig); }
        s += "!ins_intrinsics\n";
        for e in &self.entries {
            let ty = |f: bool| if f { "float" } else { "int" };
            let line = match e.kind {
                None => continue,
                Some(K::Jmp) => "Jmp()".to_string(),
                Some(K::CountJmpNe) => "CountJmp()".to_string(),
                Some(K::CountJmpGt) => "CountJmp(op=\">\")".to_string(),
                Some(K::Interrupt) => "Interrupt()".to_string(),
                Some(K::Assign(op, f)) => format!("AssignOp(op=\"{op}\"; type=\"{}\")", ty(f)),
                Some(K::Bin(op, f)) => format!("BinOp(op=\"{op}\"; type=\"{}\")", ty(f)),
                Some(K::Un(op, f)) => format!("UnOp(op=\"{op}\"; type=\"{}\")", ty(f)),
                Some(K::CondJmp(op, f)) => format!("CondJmp(op=\"{op}\"; type=\"{}\")", ty(f)),
                Some(K::Cmp(f)) => format!("DedicatedCmp(type=\"{}\")", ty(f)),
                Some(K::CmpJmp(op)) => format!("DedicatedCmpJmp(op=\"{op}\")"),
            };
            s += &format!("{} {}\n", e.opcode, line);
        }
        s
    }
}

fn static_op(op: &str) -> Option<&'static str> {
    ARITH.iter().chain(CMPS.iter()).chain(BITS.iter()).chain(["=", "+=", "-=", "*=", "/=", "%=", "|=", "^=", "&=", "<<=", ">>=", ">>>=", "!", "~", "sin", "cos", "sqrt", "tan", "asin", "acos", "atan"].iter()).find(|x| **x == op).copied()
}

/// `Name(op="x"; type="int")` -> K (None for intrinsics M1 does not model, e.g. calls)
pub fn parse_intrinsic(s: &str) -> Option<K> {
    let (name, rest) = s.split_once('(')?;
    let attr = |key: &str| -> Option<String> {
        let pat = format!("{key}=\"");
        let i = rest.find(&pat)? + pat.len();
        let j = rest[i..].find('"')? + i;
        Some(rest[i..j].to_string())
    };
    let is_float = attr("type").map(|t| t == "float");
    let op = attr("op");
    Some(match name.trim() {
        "Jmp" => K::Jmp,
        "Interrupt" => K::Interrupt,
        "CountJmp" => match op.as_deref() { None | Some("!=") => K::CountJmpNe, Some(">") => K::CountJmpGt, _ => return None },
        "AssignOp" => K::Assign(static_op(&op?)?, is_float?),
        "BinOp" => K::Bin(static_op(&op?)?, is_float?),
        "UnOp" => K::Un(static_op(&op?)?, is_float?),
        "CondJmp" => K::CondJmp(static_op(&op?)?, is_float?),
        "DedicatedCmp" => K::Cmp(is_float?),
        "DedicatedCmpJmp" => K::CmpJmp(static_op(&op?)?),
        _ => return None,
    })
}

#[derive(Debug, Clone, Copy)]
pub struct RegSpec { pub id: i32, pub float: bool, pub name: Option<&'static str> }

pub const R_A: i32 = 1000; pub const R_B: i32 = 1001; pub const R_C: i32 = 1002; pub const R_D: i32 = 1003;
pub const R_X: i32 = 1004; pub const R_Y: i32 = 1005; pub const R_Z: i32 = 1006; pub const R_W: i32 = 1007;
pub const R_P: i32 = 1010; pub const R_Q: i32 = 1011; pub const R_R: i32 = 1012; pub const R_S: i32 = 1013;
pub const R_COUNT: i32 = 1020;

pub const REGS: &[RegSpec] = &[
    RegSpec { id: R_A, float: false, name: Some("A") }, RegSpec { id: R_B, float: false, name: Some("B") },
    RegSpec { id: R_C, float: false, name: Some("C") }, RegSpec { id: R_D, float: false, name: Some("D") },
    RegSpec { id: R_X, float: true, name: Some("X") }, RegSpec { id: R_Y, float: true, name: Some("Y") },
    RegSpec { id: R_Z, float: true, name: Some("Z") }, RegSpec { id: R_W, float: true, name: Some("W") },
    RegSpec { id: R_P, float: false, name: Some("P") }, RegSpec { id: R_Q, float: false, name: Some("Q") },
    RegSpec { id: R_R, float: true, name: Some("R") }, RegSpec { id: R_S, float: true, name: Some("S") },
    RegSpec { id: R_COUNT, float: false, name: Some("COUNT") },
];
pub const POOL_INTS: [i32; 4] = [R_A, R_B, R_C, R_D];
pub const POOL_FLOATS: [i32; 4] = [R_X, R_Y, R_Z, R_W];

pub fn reg_is_float(id: i32) -> bool { REGS.iter().find(|r| r.id == id).map(|r| r.float).unwrap_or(false) }

// ---------------------------------------------------------------------------------------------
// Valuations

#[derive(Debug, Clone, PartialEq)]
pub enum Val { I(i32), F(f32) }

impl Val {
    pub fn as_int(&self) -> i32 { match *self { Val::I(x) => x, Val::F(x) => x as i32 } }
    pub fn as_float(&self) -> f32 { match *self { Val::I(x) => x as f32, Val::F(x) => x } }
    pub fn same(&self, o: &Val) -> bool { match (self, o) {
        (Val::I(a), Val::I(b)) => a == b,
        (Val::F(a), Val::F(b)) => crate::common::f32_bits_eq(*a, *b),
        _ => false,
    }}
    pub fn from_scalar(v: &ScalarValue) -> Val { match v {
        ScalarValue::Int(x) => Val::I(*x), ScalarValue::Float(x) => Val::F(*x),
        ScalarValue::String(_) => Val::I(i32::MIN),
    }}
    pub fn to_scalar(&self) -> ScalarValue { match *self { Val::I(x) => ScalarValue::Int(x), Val::F(x) => ScalarValue::Float(x) } }
}

pub type Valuation = BTreeMap<i32, Val>;

pub fn valuations() -> Vec<Valuation> {
    let ints: [[i32; 7]; 6] = [
        [2, 3, 5, 7, 11, 13, 17],
        [0, 0, 0, 0, 0, 0, 0],
        [-1, -1, -1, -1, -1, -1, -1],
        [-3, 4, -5, 6, -7, 1, 2],
        [2147483647, -2147483648, 65536, -65537, 46341, 1, 2],
        [0, 1, 2, 3, 1, 2, 1],
    ];
    let floats: [[f32; 6]; 6] = [
        [1.5, 2.5, 3.5, 4.5, 5.5, 6.5],
        [0.0, 0.0, 0.0, 0.0, 0.0, 0.0],
        [-1.0, -1.0, -1.0, -1.0, -1.0, -1.0],
        [-0.5, 0.5, -1.5, 1.5, 2.25, -2.25],
        [1.0e9, -1.0e9, 3.0e38, 1.0e-30, 16777217.0, -0.0],
        [0.0, 1.0, 2.0, 0.5, 1.0, 2.0],
    ];
    let ireg = [R_A, R_B, R_C, R_D, R_P, R_Q, R_COUNT];
    let freg = [R_X, R_Y, R_Z, R_W, R_R, R_S];
    (0..6).map(|v| {
        let mut m = Valuation::new();
        for (i, &r) in ireg.iter().enumerate() { m.insert(r, Val::I(ints[v][i])); }
        for (i, &r) in freg.iter().enumerate() { m.insert(r, Val::F(floats[v][i])); }
        m
    }).collect()
}

// ---------------------------------------------------------------------------------------------
// Pipeline

pub struct Pool { pub ints: usize, pub floats: usize }

pub fn make_language(pool: &Pool, anti_scratch: bool) -> llir::TestLanguage {
    let mut format = llir::TestLanguage::default();
    format.language = LanguageKey::Anm;
    format.general_use_int_regs = POOL_INTS[..pool.ints].iter().map(|&r| RegId(r)).collect();
    format.general_use_float_regs = POOL_FLOATS[..pool.floats].iter().map(|&r| RegId(r)).collect();
    format.anti_scratch_opcode = if anti_scratch { Some(ANTI_SCRATCH_OPCODE) } else { None };
    format
}

#[derive(Debug)]
pub enum CompileOutcome {
    /// Emitted instructions; `warnings` is any diagnostic text captured (empty if none)
    Ok { instrs: Vec<RawInstr>, warnings: String },
    /// Compile failed with diagnostics text
    Err { stage: &'static str, diag: String },
    Panic { stage: &'static str, panic: Panic },
}

/// State kept after a successful front end, so that the caller can run the AstVm on the source.
pub struct FrontEnd {
    pub block: ast::Block,     // after resolve/typecheck/aliases_to_raw/diff masks (NOT desugared)
}

pub struct Session<'a, 'ctx> { pub truth: &'a mut Truth<'ctx> }

pub fn with_truth<T>(mapfile: &str, f: impl FnOnce(&mut Truth) -> T) -> T {
    let mut scope = truth::Builder::new().capture_diagnostics(true).build();
    let mut truth = scope.truth();
    truth.apply_mapfile_str(mapfile, truth::Game::Th10)
        .unwrap_or_else(|_| panic!("harness mapfile rejected: {}", truth.get_captured_diagnostics().unwrap()));
    f(&mut truth)
}

/// Parse + front-end passes.  Returns the block ready for AstVm (aliases raw, diff masks computed).
pub fn front_end(truth: &mut Truth, text: &str, type_check: bool) -> Result<ast::Block, (&'static str, String)> {
    macro_rules! stage { ($name:expr, $e:expr) => { match $e { Ok(v) => v, Err(e) => { e.ignore(); return Err(($name, truth.get_captured_diagnostics().unwrap_or_default())); } } } }
    let mut block = stage!("parse", truth.parse::<ast::Block>("<input>", text.as_ref())).value;
    let ctx = truth.ctx();
    let r = truth::passes::resolution::assign_languages(&mut block, LanguageKey::Anm, ctx);
    stage!("assign_languages", r);
    let ctx = truth.ctx();
    let r = truth::passes::resolution::resolve_names(&block, ctx);
    stage!("resolve", r);
    if type_check {
        let ctx = truth.ctx();
        let r = truth::passes::type_check::run(&block, ctx);
        stage!("type_check", r);
    }
    let ctx = truth.ctx();
    let r = truth::passes::resolution::aliases_to_raw(&mut block, ctx);
    stage!("aliases_to_raw", r);
    let ctx = truth.ctx();
    let r = truth::passes::resolution::compute_diff_label_masks(&mut block, ctx);
    stage!("diff_masks", r);
    Ok(block)
}

/// evaluate_const_vars + const_simplify, as the real compile pipelines do before desugaring
pub fn const_simplify(truth: &mut Truth, block: &mut ast::Block) -> Result<(), String> {
    let ctx = truth.ctx();
    let r = (|| -> Result<(), truth::ErrorReported> {
        truth::passes::evaluate_const_vars::run(ctx)?;
        truth::passes::const_simplify::run(block, ctx)?;
        Ok(())
    })();
    match r { Ok(()) => Ok(()), Err(e) => { e.ignore(); Err(truth.get_captured_diagnostics().unwrap_or_default()) } }
}

/// the ECL pipelines' difficulty validation (mismatched switch lengths etc.)
pub fn validate_difficulty(truth: &mut Truth, hooks: &dyn llir::LanguageHooks, block: &ast::Block) -> Result<(), String> {
    let ctx = truth.ctx();
    match truth::passes::validate_difficulty::run(block, ctx, hooks) {
        Ok(()) => Ok(()),
        Err(e) => { e.ignore(); Err(truth.get_captured_diagnostics().unwrap_or_default()) }
    }
}

pub fn desugar(truth: &mut Truth, block: &ast::Block) -> Result<ast::Block, String> {
    let mut b = block.clone();
    let ctx = truth.ctx();
    match truth::passes::desugar_blocks::run(&mut b, ctx, LanguageKey::Anm) {
        Ok(()) => Ok(b),
        Err(e) => { e.ignore(); Err(truth.get_captured_diagnostics().unwrap_or_default()) }
    }
}

pub fn lower(truth: &mut Truth, hooks: &dyn llir::LanguageHooks, stmts: &[truth::Sp<ast::Stmt>], debug: bool)
    -> Result<(Vec<RawInstr>, Option<truth::debug_info::ScriptLoweringInfo>), String>
{
    let ctx = truth.ctx();
    let mut errors = truth::error::ErrorFlag::new();
    let mut lowerer = llir::Lowerer::new(hooks);
    let (instrs, dbg) = lowerer.lower_sub(stmts, None, ctx, debug).unwrap_or_else(|e| { errors.set(e); (vec![], None) });
    lowerer.finish(ctx).unwrap_or_else(|e| errors.set(e));
    match errors.into_result(()) {
        Ok(()) => Ok((instrs, dbg)),
        Err(e) => { e.ignore(); Err(truth.get_captured_diagnostics().unwrap_or_default()) }
    }
}

pub fn raise(truth: &mut Truth, hooks: &dyn llir::LanguageHooks, instrs: &[RawInstr], options: &llir::DecompileOptions) -> Result<ast::Block, String> {
    let emitter = truth.emitter();
    let ctx = truth.ctx();
    let script = llir::RawScript { instrs: instrs.to_vec(), file_offset: None };
    let r = (|| -> Result<ast::Block, truth::ErrorReported> {
        let const_proof = truth::passes::evaluate_const_vars::run(ctx)?;
        let mut raiser = llir::Raiser::new(hooks, ctx.emitter, ctx, options, const_proof)?;
        let mut stmts = raiser.raise_instrs_to_sub_ast(&emitter, &script, &ctx)?;
        truth::passes::resolution::aliases_to_raw(&mut stmts[..], ctx)?;
        Ok(ast::Block(stmts))
    })();
    match r {
        Ok(b) => Ok(b),
        Err(e) => { e.ignore(); Err(truth.get_captured_diagnostics().unwrap_or_default()) }
    }
}

// ---------------------------------------------------------------------------------------------
// Running the AstVm

#[derive(Debug, Clone, PartialEq)]
pub struct Call { pub real_time: i32, pub opcode: u16, pub args: Vec<Val> }

#[derive(Debug, Clone)]
pub struct Trace {
    pub log: Vec<Call>,
    pub time: i32,
    pub real_time: i32,
    pub regs: BTreeMap<i32, Val>,
    /// None = ran to completion; Some(reason) = stopped early
    pub stopped: Option<String>,
    /// M1 only: number of calls logged when a jump was taken *after* an earlier taken jump whose time argument differed from
    /// its target's time (an explicit `@ t`).  From then on the machine clock and AstVm's clock follow different rules
    /// (compiler-generated jumps carry label times, AstVm executes no jump there), so times are compared only before it.
    pub clock_unreliable_from: Option<usize>,
}

pub const MAX_ITER: u32 = 400;

pub fn run_astvm(truth: &mut Truth, stmts: &[truth::Sp<ast::Stmt>], val: &Valuation, difficulty: u32) -> Trace { run_astvm_iter(truth, stmts, val, difficulty, MAX_ITER) }

/// Both sides are AstVm runs of programs that should be equivalent.  If exactly one of them hit the iteration limit, that
/// side is re-run with ten times the budget (the two forms may count iterations slightly differently); if it still does
/// not finish while the other side finished within the normal budget, the pair differs in termination
/// (`compare_traces_term` reports it).
pub fn run_astvm_pair(truth: &mut Truth, a: &[truth::Sp<ast::Stmt>], b: &[truth::Sp<ast::Stmt>], val: &Valuation, difficulty: u32) -> (Trace, Trace) {
    let mut ta = run_astvm(truth, a, val, difficulty);
    let mut tb = run_astvm(truth, b, val, difficulty);
    let capped = |t: &Trace| t.stopped.as_deref() == Some("iteration-limit");
    if capped(&ta) && tb.stopped.is_none() { ta = run_astvm_iter(truth, a, val, difficulty, MAX_ITER * 10); if capped(&ta) { ta.stopped = Some("iteration-limit-x10".into()); } }
    else if capped(&tb) && ta.stopped.is_none() { tb = run_astvm_iter(truth, b, val, difficulty, MAX_ITER * 10); if capped(&tb) { tb.stopped = Some("iteration-limit-x10".into()); } }
    (ta, tb)
}

/// `compare_traces` plus the termination clause for pairs produced by `run_astvm_pair`
pub fn compare_traces_term(a: &Trace, b: &Trace, regs_to_compare: &[i32], cmp_time: bool) -> Option<String> { compare_traces_term_ex(a, b, regs_to_compare, cmp_time, true) }

pub fn compare_traces_term_ex(a: &Trace, b: &Trace, regs_to_compare: &[i32], cmp_time: bool, cmp_real_time: bool) -> Option<String> {
    for (x, y, who) in [(a, b, "second"), (b, a, "first")] {
        if x.stopped.is_none() && y.stopped.as_deref() == Some("iteration-limit-x10") {
            return Some(format!("termination differs: one form completes ({} calls), the {who} form is still running after 10x the iteration budget ({} calls so far)", x.log.len(), y.log.len()));
        }
    }
    compare_traces_ex(a, b, regs_to_compare, cmp_time, cmp_real_time)
}

pub fn run_astvm_iter(truth: &mut Truth, stmts: &[truth::Sp<ast::Stmt>], val: &Valuation, difficulty: u32, max_iter: u32) -> Trace {
    let mut vm = AstVm::new().with_max_iterations(max_iter).with_difficulty(difficulty);
    for (&r, v) in val { vm.set_reg(RegId(r), v.to_scalar()); }
    let ctx = truth.ctx();
    let res = catch(|| { vm.run(stmts, ctx); });
    let stopped = match res {
        Ok(()) => None,
        Err(p) => Some(if p.text.contains("iteration limit") { "iteration-limit".to_string() } else { format!("vm-panic: {}", p.signature()) }),
    };
    let mut regs = BTreeMap::new();
    for spec in REGS {
        if let Ok(Some(v)) = catch(|| vm.get_reg(RegId(spec.id))) { regs.insert(spec.id, Val::from_scalar(&v)); }
    }
    Trace {
        log: vm.instr_log.iter().map(|c| Call { real_time: c.real_time, opcode: c.opcode, args: c.args.iter().map(Val::from_scalar).collect() }).collect(),
        time: vm.time, real_time: vm.real_time, regs, stopped, clock_unreliable_from: None,
    }
}

// ---------------------------------------------------------------------------------------------
// M1: independent machine for emitted instructions

#[derive(Debug, Clone)]
pub enum Arg { Imm(Val), Reg(i32), Skip }

/// Decode args of an instruction according to the harness's own signature knowledge.
/// Only the letters the harness's tables use: S f o t _
pub fn decode_args(sig: &str, instr: &RawInstr) -> Result<Vec<(char, Arg)>, String> { decode_args_ex(sig, instr, None) }

pub fn decode_args_ex(sig: &str, instr: &RawInstr, regs_by_value: Option<&std::collections::BTreeSet<i32>>) -> Result<Vec<(char, Arg)>, String> {
    let blob = &instr.args_blob;
    let letters: Vec<char> = sig.chars().collect();
    if blob.len() != letters.len() * 4 { return Err(format!("blob length {} != 4*{} for signature '{}'", blob.len(), letters.len(), sig)); }
    let mut out = vec![];
    let mut mask_bit = 0;
    for (i, &c) in letters.iter().enumerate() {
        let raw = u32::from_le_bytes([blob[4*i], blob[4*i+1], blob[4*i+2], blob[4*i+3]]);
        if c == '_' {
            if raw != 0 { return Err(format!("nonzero padding {raw:#x}")); }
            out.push((c, Arg::Skip));
            continue; // padding takes no mask bit
        }
        let is_reg = match regs_by_value {
            None => instr.param_mask & (1 << mask_bit) != 0,
            Some(set) => match c {
                'S' => set.contains(&(raw as i32)),
                'f' => { let f = f32::from_bits(raw); f == f.round() && f.abs() < 1.0e6 && set.contains(&(f as i32)) },
                _ => false,
            },
        };
        mask_bit += 1;
        let arg = match c {
            'S' | 'o' | 't' => if is_reg { Arg::Reg(raw as i32) } else { Arg::Imm(Val::I(raw as i32)) },
            'f' => {
                let f = f32::from_bits(raw);
                if is_reg {
                    if f != f.round() { return Err(format!("float-encoded register id {f} is not integral")); }
                    Arg::Reg(f as i32)
                } else { Arg::Imm(Val::F(f)) }
            },
            _ => return Err(format!("M1 does not know signature letter {c}")),
        };
        if (c == 'o' || c == 't') && is_reg { return Err(format!("register in jump arg {c}")); }
        out.push((c, arg));
    }
    if regs_by_value.is_none() && instr.param_mask >> mask_bit != 0 { return Err(format!("param mask {:#x} has bits beyond {} args", instr.param_mask, mask_bit)); }
    Ok(out)
}

fn int_binop(op: &str, a: i32, b: i32) -> Option<i32> {
    let (a64, b64) = (a as i64, b as i64);
    let wrap = |x: i64| x as i32; // truncation to 32 bits
    Some(match op {
        "+" => wrap(a64 + b64), "-" => wrap(a64 - b64), "*" => wrap(a64.wrapping_mul(b64)),
        "/" => { if b == 0 { return None; } wrap(a64 / b64) },
        "%" => { if b == 0 { return None; } wrap(a64 % b64) },
        "==" => (a == b) as i32, "!=" => (a != b) as i32, "<" => (a < b) as i32, "<=" => (a <= b) as i32,
        ">" => (a > b) as i32, ">=" => (a >= b) as i32,
        "|" => a | b, "^" => a ^ b, "&" => a & b,
        "||" => if a != 0 { a } else { b },
        "&&" => if a == 0 { 0 } else { b },
        "<<" => ((a as u32) << ((b as u32) & 31)) as i32,
        ">>" => a >> ((b as u32) & 31),
        ">>>" => ((a as u32) >> ((b as u32) & 31)) as i32,
        _ => return None,
    })
}

fn float_binop(op: &str, a: f32, b: f32) -> Option<Val> {
    Some(match op {
        "+" => Val::F(a + b), "-" => Val::F(a - b), "*" => Val::F(a * b), "/" => Val::F(a / b), "%" => Val::F(a % b),
        "==" => Val::I((a == b) as i32), "!=" => Val::I((a != b) as i32), "<" => Val::I((a < b) as i32),
        "<=" => Val::I((a <= b) as i32), ">" => Val::I((a > b) as i32), ">=" => Val::I((a >= b) as i32),
        _ => return None,
    })
}

pub fn m1_binop(op: &str, float: bool, a: &Val, b: &Val) -> Option<Val> {
    if float { float_binop(op, a.as_float(), b.as_float()) } else { int_binop(op, a.as_int(), b.as_int()).map(Val::I) }
}

pub fn m1_unop(op: &str, float: bool, a: &Val) -> Option<Val> {
    Some(if float {
        let x = a.as_float();
        match op { "-" => Val::F(-x), "sin" => Val::F(x.sin()), "cos" => Val::F(x.cos()), "sqrt" => Val::F(x.sqrt()),
            "tan" => Val::F(x.tan()), "asin" => Val::F(x.asin()), "acos" => Val::F(x.acos()), "atan" => Val::F(x.atan()), _ => return None }
    } else {
        let x = a.as_int();
        match op { "-" => Val::I((-(x as i64)) as i32), "~" => Val::I(!x), "!" => Val::I((x == 0) as i32), _ => return None }
    })
}

fn cmp_holds(op: &str, ord: i32) -> bool {
    match op { "==" => ord == 0, "!=" => ord != 0, "<" => ord < 0, "<=" => ord <= 0, ">" => ord > 0, ">=" => ord >= 0, _ => unreachable!() }
}

pub fn run_m1(table: &Table, instrs: &[RawInstr], val: &Valuation, difficulty: u32, header_size: usize) -> Result<Trace, String> {
    run_m1_ex(table, instrs, val, difficulty, header_size, false)
}

/// `relative_jumps`: jump offsets are relative to the start of the jumping instruction (old ECL)
pub fn run_m1_ex(table: &Table, instrs: &[RawInstr], val: &Valuation, difficulty: u32, header_size: usize, relative_jumps: bool) -> Result<Trace, String> {
    let mut regs: BTreeMap<i32, Val> = val.clone();
    let mut offsets = vec![];
    let mut off = 0u64;
    for i in instrs { offsets.push(off); off += (header_size + i.args_blob.len()) as u64; }
    let end = off;
    let index_of = |target: i32| -> Result<usize, String> {
        let t = target as i64 as u64;
        if t == end { return Ok(instrs.len()); }
        offsets.iter().position(|&o| o == t).ok_or_else(|| format!("jump target offset {target} is not an instruction boundary"))
    };
    let mut pc = 0usize;
    let mut time = 0i32;
    let mut real_time = 0i32;
    let mut log = vec![];
    let mut iters = 0u32;
    // hidden compare flag: Some(ordering) or None when unordered (NaN)
    let mut cmp_flag: Option<i32> = Some(0);
    let mut stopped = None;
    let mut off_label_taken = false;
    let mut clock_unreliable_from: Option<usize> = None;
    let read = |regs: &BTreeMap<i32, Val>, a: &Arg, float: bool| -> Result<Val, String> {
        let v = match a { Arg::Imm(v) => v.clone(), Arg::Reg(r) => regs.get(r).cloned().ok_or_else(|| format!("read of unset register {r}"))?, Arg::Skip => unreachable!() };
        Ok(if float { Val::F(v.as_float()) } else { Val::I(v.as_int()) })
    };
    while pc < instrs.len() {
        iters += 1;
        if iters > MAX_ITER * 4 { stopped = Some("iteration-limit".to_string()); break; }
        let ins = &instrs[pc];
        if time < ins.time { real_time += ins.time - time; time = ins.time; }
        if ins.difficulty & (1u8 << difficulty) == 0 { pc += 1; continue; }
        let entry = table.get(ins.opcode).ok_or_else(|| format!("unknown opcode {}", ins.opcode))?;
        let args = decode_args_ex(&entry.sig, ins, table.regs_by_value.as_ref())?;
        let real: Vec<&(char, Arg)> = args.iter().filter(|(c, _)| *c != '_').collect();
        let cur_offset = offsets[pc] as i64;
        // locate jump parts
        let jump_target = |regs: &BTreeMap<i32, Val>| -> Result<(usize, Option<i32>), String> {
            let o = real.iter().find(|(c, _)| *c == 'o').ok_or("no o arg")?;
            let t = real.iter().find(|(c, _)| *c == 't');
            let o = read(regs, &o.1, false)?.as_int();
            let t = match t { Some(t) => Some(read(regs, &t.1, false)?.as_int()), None => None };
            let o = if relative_jumps { (cur_offset + o as i64) as i32 } else { o };
            Ok((index_of(o)?, t))
        };
        macro_rules! do_jump { () => {{
            let (idx, t) = jump_target(&regs)?;
            if off_label_taken && clock_unreliable_from.is_none() { clock_unreliable_from = Some(log.len()); }
            if let Some(t) = t { if idx < instrs.len() && instrs[idx].time != t { off_label_taken = true; } }
            pc = idx;
            match t { Some(t) => time = t, None => { if idx < instrs.len() { time = instrs[idx].time; } } }
            continue;
        }}}
        let out_reg = |a: &Arg| -> Result<i32, String> { match a { Arg::Reg(r) => Ok(*r), _ => Err(format!("output operand is not a register: {:?}", a)) } };
        match entry.kind {
            None => {
                let mut vals = vec![];
                for (c, a) in &real { vals.push(read(&regs, a, *c == 'f')?); }
                log.push(Call { real_time, opcode: ins.opcode, args: vals });
            },
            Some(K::Interrupt) => {},
            Some(K::Jmp) => do_jump!(),
            Some(K::CountJmpNe) | Some(K::CountJmpGt) => {
                let plain: Vec<_> = real.iter().filter(|(c, _)| *c == 'S').collect();
                let r = out_reg(&plain[0].1)?;
                let v = read(&regs, &Arg::Reg(r), false)?.as_int().wrapping_sub(1);
                regs.insert(r, Val::I(v));
                let go = if entry.kind == Some(K::CountJmpNe) { v != 0 } else { v > 0 };
                if go { do_jump!(); }
            },
            Some(K::Assign(op, f)) => {
                let r = out_reg(&real[0].1)?;
                let b = read(&regs, &real[1].1, f)?;
                let v = if op == "=" { b } else {
                    let a = read(&regs, &Arg::Reg(r), f)?;
                    m1_binop(op.trim_end_matches('='), f, &a, &b).ok_or_else(|| format!("UNDEFINED:{op}"))?
                };
                regs.insert(r, v);
            },
            Some(K::Bin(op, f)) => {
                let r = out_reg(&real[0].1)?;
                let a = read(&regs, &real[1].1, f)?;
                let b = read(&regs, &real[2].1, f)?;
                let v = m1_binop(op, f, &a, &b).ok_or_else(|| format!("UNDEFINED:{op}"))?;
                regs.insert(r, v);
            },
            Some(K::Un(op, f)) => {
                let r = out_reg(&real[0].1)?;
                let a = read(&regs, &real[1].1, f)?;
                regs.insert(r, m1_unop(op, f, &a).ok_or_else(|| format!("UNDEFINED:{op}"))?);
            },
            Some(K::CondJmp(op, f)) => {
                let plain: Vec<_> = real.iter().filter(|(c, _)| *c == 'S' || *c == 'f').collect();
                let a = read(&regs, &plain[0].1, f)?;
                let b = read(&regs, &plain[1].1, f)?;
                let v = m1_binop(op, f, &a, &b).unwrap();
                if v.as_int() != 0 { do_jump!(); }
            },
            Some(K::Cmp(f)) => {
                let a = read(&regs, &real[0].1, f)?;
                let b = read(&regs, &real[1].1, f)?;
                cmp_flag = if f {
                    a.as_float().partial_cmp(&b.as_float()).map(|o| o as i32)
                } else { Some(a.as_int().cmp(&b.as_int()) as i32) };
            },
            Some(K::CmpJmp(op)) => {
                let go = match cmp_flag { Some(ord) => cmp_holds(op, ord), None => op == "!=" };
                if go { do_jump!(); }
            },
        }
        pc += 1;
    }
    Ok(Trace { log, time, real_time, regs, stopped, clock_unreliable_from })
}

/// registers that appear anywhere in the emitted instructions (by the harness's own decoding)
pub fn regs_in_instrs(table: &Table, instrs: &[RawInstr]) -> Result<Vec<i32>, String> {
    let mut out = vec![];
    for ins in instrs {
        let entry = table.get(ins.opcode).ok_or_else(|| format!("unknown opcode {}", ins.opcode))?;
        for (_, a) in decode_args(&entry.sig, ins)? { if let Arg::Reg(r) = a { if !out.contains(&r) { out.push(r); } } }
    }
    Ok(out)
}

pub fn fmt_instrs(instrs: &[RawInstr]) -> Vec<String> {
    instrs.iter().map(|i| {
        let words: Vec<String> = i.args_blob.chunks(4).map(|c| { let mut b = [0u8; 4]; b[..c.len()].copy_from_slice(c); format!("{:#x}", u32::from_le_bytes(b)) }).collect();
        format!("t={} op={} mask={:#x} diff={:#x} [{}]", i.time, i.opcode, i.param_mask, i.difficulty, words.join(" "))
    }).collect()
}

/// Compare two traces per the property (calls + args + real_time, final time if `cmp_time`, listed registers).
pub fn compare_traces(a: &Trace, b: &Trace, regs_to_compare: &[i32], cmp_time: bool) -> Option<String> {
    compare_traces_ex(a, b, regs_to_compare, cmp_time, true)
}

/// `cmp_real_time = false`: for instruction tables whose jumps carry no time argument, the time a jump
/// lands on is not encoded in the instruction stream (DESIGN §3.6), so call times are not compared.
pub fn compare_traces_ex(a: &Trace, b: &Trace, regs_to_compare: &[i32], cmp_time: bool, cmp_real_time: bool) -> Option<String> {
    let both_done = a.stopped.is_none() && b.stopped.is_none();
    let n = if both_done { a.log.len().max(b.log.len()) } else { a.log.len().min(b.log.len()) };
    for i in 0..n {
        match (a.log.get(i), b.log.get(i)) {
            (Some(x), Some(y)) => {
                let times_here = cmp_real_time && a.clock_unreliable_from.map_or(true, |k| i < k) && b.clock_unreliable_from.map_or(true, |k| i < k);
                if x.opcode != y.opcode || (times_here && x.real_time != y.real_time) || x.args.len() != y.args.len() || x.args.iter().zip(&y.args).any(|(p, q)| !p.same(q)) {
                    return Some(format!("call #{i} differs: {:?} vs {:?}", x, y));
                }
            },
            (x, y) => return Some(format!("call #{i} present on one side only: {:?} vs {:?}", x, y)),
        }
    }
    if !both_done { return None; }
    let cmp_time = cmp_time && a.clock_unreliable_from.is_none() && b.clock_unreliable_from.is_none();
    if cmp_time && (a.time != b.time) { return Some(format!("final time differs: {} vs {}", a.time, b.time)); }
    if cmp_time && a.real_time != b.real_time { return Some(format!("final real_time differs: {} vs {}", a.real_time, b.real_time)); }
    for &r in regs_to_compare {
        match (a.regs.get(&r), b.regs.get(&r)) {
            (Some(x), Some(y)) if x.same(y) => {},
            (x, y) => return Some(format!("register {r} differs: {:?} vs {:?}", x, y)),
        }
    }
    None
}

pub fn _unused(_: Ty) {}
