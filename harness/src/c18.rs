//! C18: debug info describes the file that was actually written.
//!
//! Bounded exhaustive enumeration of small programs per format; each is compiled by the real truth
//! pipeline (in process; a bounded prefix also through the real CLI), and the debug-info JSON is
//! compared with facts obtained from the WRITTEN BINARY by the independent M2 walkers plus the
//! generator's own models (M3 label arithmetic, M6 constant evaluator, sentinel literals for locals).
#![allow(dead_code)]

use std::collections::{BTreeMap, BTreeSet};
use serde_json::{json, Value};
use truth::Game;

use crate::common::*;
use crate::drive::{self, CompileOpts, Kind, Tool};
use crate::m2;
use crate::tl::{m1_binop, m1_unop, Val};

// =============================================================================================
// model of a generated program

/// One event of the flattened script body, in source order.
#[derive(Clone, Debug, PartialEq)]
enum Ev {
    /// a user label with the time M3 gives it
    Label { name: String, time: i32 },
    /// a time label (`N:` / `+N:`)
    Time,
    /// a statement that emits >= 1 instruction.  `dword`: the first emitted instruction contains this
    /// unique dword in its argument blob.  `index`: the first emitted instruction is exactly the
    /// index-th instruction of the script (known only while every earlier statement emits exactly one).
    Emit { dword: Option<u32>, index: Option<usize> },
}

#[derive(Clone, Debug, PartialEq)]
struct LocalM { name: String, float: bool, sentinel: u32, reg_as_float: bool }

#[derive(Clone, Debug, PartialEq)]
struct ScriptM {
    name: String,
    /// "anm" | "std" | "msg" | "sub" | "timeline"
    skind: String,
    /// position among the scripts of its kind in file order (ANM: across entries)
    index: usize,
    events: Vec<Ev>,
    locals: Vec<LocalM>,
    /// (instruction index, const name, float): that instruction is `set reg, <const>`: args dword 1 is the value used
    const_uses: Vec<(usize, String, bool)>,
    /// stored instruction times are 16 bit in this script's layout
    time16: bool,
}

#[derive(Clone, Debug, PartialEq)]
struct ConstM { name: String, float: bool, bits: u32 }

#[derive(Clone, Debug)]
struct Case {
    family: String,
    tool: Tool,
    src: String,
    scripts: Vec<ScriptM>,
    consts: Vec<ConstM>,
}

fn ev_to_json(e: &Ev) -> Value {
    match e {
        Ev::Label { name, time } => json!({"label": name, "time": time}),
        Ev::Time => json!("time"),
        Ev::Emit { dword, index } => json!({"emit": {"dword": dword, "index": index}}),
    }
}
fn ev_from_json(v: &Value) -> Option<Ev> {
    if v == "time" { return Some(Ev::Time); }
    if let Some(l) = v.get("label") { return Some(Ev::Label { name: l.as_str()?.to_string(), time: v["time"].as_i64()? as i32 }); }
    let e = v.get("emit")?;
    Some(Ev::Emit { dword: e["dword"].as_u64().map(|x| x as u32), index: e["index"].as_u64().map(|x| x as usize) })
}
fn script_to_json(s: &ScriptM) -> Value {
    json!({
        "name": s.name, "skind": s.skind, "index": s.index, "time16": s.time16,
        "events": s.events.iter().map(ev_to_json).collect::<Vec<_>>(),
        "locals": s.locals.iter().map(|l| json!({"name": l.name, "float": l.float, "sentinel": l.sentinel, "reg_as_float": l.reg_as_float})).collect::<Vec<_>>(),
        "const_uses": s.const_uses.iter().map(|(i, n, f)| json!([i, n, f])).collect::<Vec<_>>(),
    })
}
fn script_from_json(v: &Value) -> Option<ScriptM> {
    Some(ScriptM {
        name: v["name"].as_str()?.to_string(), skind: v["skind"].as_str()?.to_string(), index: v["index"].as_u64()? as usize,
        time16: v["time16"].as_bool()?,
        events: v["events"].as_array()?.iter().map(ev_from_json).collect::<Option<Vec<_>>>()?,
        locals: v["locals"].as_array()?.iter().map(|l| Some(LocalM { name: l["name"].as_str()?.to_string(), float: l["float"].as_bool()?, sentinel: l["sentinel"].as_u64()? as u32, reg_as_float: l["reg_as_float"].as_bool()? })).collect::<Option<Vec<_>>>()?,
        const_uses: v["const_uses"].as_array()?.iter().map(|c| Some((c[0].as_u64()? as usize, c[1].as_str()?.to_string(), c[2].as_bool()?))).collect::<Option<Vec<_>>>()?,
    })
}
fn kind_name(k: Kind) -> &'static str { match k { Kind::Anm => "Anm", Kind::Std => "Std", Kind::Msg => "Msg", Kind::End => "End", Kind::Mission => "Mission", Kind::Ecl => "Ecl" } }
fn kind_from(s: &str) -> Option<Kind> { Some(match s { "Anm" => Kind::Anm, "Std" => Kind::Std, "Msg" => Kind::Msg, "Ecl" => Kind::Ecl, _ => return None }) }
fn case_to_json(c: &Case) -> Value {
    json!({
        "family": c.family, "kind": kind_name(c.tool.kind), "game": c.tool.game.as_str(), "src": c.src,
        "model": {
            "scripts": c.scripts.iter().map(script_to_json).collect::<Vec<_>>(),
            "consts": c.consts.iter().map(|k| json!({"name": k.name, "float": k.float, "bits": k.bits})).collect::<Vec<_>>(),
        },
    })
}
fn case_from_json(v: &Value) -> Option<Case> {
    Some(Case {
        family: v["family"].as_str()?.to_string(),
        tool: Tool::new(kind_from(v["kind"].as_str()?)?, v["game"].as_str()?.parse::<Game>().ok()?),
        src: v["src"].as_str()?.to_string(),
        scripts: v["model"]["scripts"].as_array()?.iter().map(script_from_json).collect::<Option<Vec<_>>>()?,
        consts: v["model"]["consts"].as_array()?.iter().map(|k| Some(ConstM { name: k["name"].as_str()?.to_string(), float: k["float"].as_bool()?, bits: k["bits"].as_u64()? as u32 })).collect::<Option<Vec<_>>>()?,
    })
}

// =============================================================================================
// facts from the written binary (M2)

#[derive(Clone, Debug)]
struct FScript { start: usize, instrs: Vec<m2::Instr>, terminal: Option<usize> }

struct Walked { anm: Vec<FScript>, std: Option<FScript>, msg_table: Vec<u32>, msg: Vec<FScript>, subs: Vec<FScript>, timelines: Vec<FScript> }

fn walk_file(tool: Tool, bytes: &[u8]) -> Result<Walked, String> {
    let mut w = Walked { anm: vec![], std: None, msg_table: vec![], msg: vec![], subs: vec![], timelines: vec![] };
    match tool.kind {
        Kind::Anm => {
            for e in m2::walk_anm(bytes, tool.game)? {
                for s in e.scripts { w.anm.push(FScript { start: s.abs, instrs: s.instrs, terminal: s.terminal.map(|t| t.0) }); }
            }
        },
        Kind::Std => {
            let s = m2::walk_std(bytes, tool.game)?;
            w.std = Some(FScript { start: s.script_offset as usize, instrs: s.script, terminal: s.script_terminal.map(|t| t.0) });
        },
        Kind::Msg => {
            let m = m2::walk_msg(bytes, tool.game, false)?;
            w.msg_table = m.table.iter().map(|t| t.script_offset).collect();
            for (k, (start, instrs, _)) in m.scripts.into_iter().enumerate() {
                w.msg.push(FScript { start, instrs, terminal: m.terminals[k].map(|t| t.0) });
            }
        },
        Kind::Ecl => {
            let e = m2::walk_ecl(bytes, tool.game)?;
            let st = m2::build_terminal(e.sub_layout).len();
            let tt = m2::build_terminal(e.timeline_layout).len();
            for (k, instrs) in e.subs.into_iter().enumerate() {
                w.subs.push(FScript { start: e.sub_offsets[k] as usize, instrs, terminal: Some(e.sub_ends[k] - st) });
            }
            for (k, instrs) in e.timelines.into_iter().enumerate() {
                w.timelines.push(FScript { start: e.timeline_offsets[k] as usize, instrs, terminal: Some(e.timeline_ends[k] - tt) });
            }
        },
        _ => return Err("unsupported kind".into()),
    }
    Ok(w)
}

fn has_dword(args: &[u8], d: u32) -> bool { args.chunks_exact(4).any(|c| c == d.to_le_bytes()) }
fn dword_at(args: &[u8], k: usize) -> Option<u32> { args.get(4 * k..4 * k + 4).map(|c| u32::from_le_bytes([c[0], c[1], c[2], c[3]])) }

// =============================================================================================
// the comparison

#[derive(Clone, Debug)]
struct Finding { kind: &'static str, class: String, detail: Value }

#[derive(Clone, Debug, Default)]
struct CaseResult {
    compiled: bool,
    facts: u64,
    features: BTreeSet<&'static str>,
    findings: Vec<Finding>,
    discard: Option<String>,
    machinery: Vec<String>,
    nontrivial: bool,
    dbg: Option<Value>,
    bytes: Option<Vec<u8>>,
}

fn first_error_line(diag: &str) -> String {
    diag.lines().find(|l| l.starts_with("error") || l.starts_with("bug")).unwrap_or("<no error line>")
        .chars().map(|c| if c.is_ascii_digit() { 'N' } else { c }).take(70).collect()
}

fn dbg_script_fragment(ds: &Value) -> Value {
    json!({
        "exported-as": ds["exported-as"], "name": ds["name"], "end-offset": ds["end-offset"],
        "instr-offsets": ds["instrs"].as_array().map(|a| a.iter().map(|i| i["offset"].clone()).collect::<Vec<_>>()),
        "labels": ds["labels"].as_array().map(|a| a.iter().map(|l| json!([l["name"], l["offset"], l["time"]])).collect::<Vec<_>>()),
        "locals": ds["locals"].as_array().map(|a| a.iter().map(|l| json!([l["name"], l["type"], l["bound-to"]["reg"]])).collect::<Vec<_>>()),
    })
}
fn file_script_facts(fs: &FScript) -> Value {
    json!({
        "script_start_in_file": fs.start, "terminal_at": fs.terminal,
        "instrs(rel_offset,size,time,opcode,difficulty)": fs.instrs.iter().map(|i| json!([i.offset - fs.start, i.size, i.time, i.opcode, i.difficulty])).collect::<Vec<_>>(),
    })
}

/// Self-test seam (VERIF_C18_SELFTEST_CORRUPT): falsify one fact of the debug info before comparing.
/// 1: shift the last instruction offset (or the end offset) of the first script; 2: move every label of every script
/// to the previous instruction boundary and add 1 to its time; 3: add 1 to every local's register; 4: add 1 to every int const.
fn corrupt_debug_info(dbg: &mut Value, mode: u32) {
    if mode == 1 {
        if let Some(s) = dbg["exported-scripts"].as_array_mut().and_then(|a| a.first_mut()) {
            let shifted = match s["instrs"].as_array_mut().and_then(|a| a.last_mut()) {
                Some(last) => { let o = last["offset"].as_u64().unwrap_or(0); last["offset"] = json!(o + 4); true },
                None => false,
            };
            if !shifted { let e = s["end-offset"].as_u64().unwrap_or(0); s["end-offset"] = json!(e + 4); }
        }
        return;
    }
    for s in dbg["exported-scripts"].as_array_mut().into_iter().flatten() {
        let offs: Vec<u64> = s["instrs"].as_array().into_iter().flatten().filter_map(|i| i["offset"].as_u64()).collect();
        if mode == 2 { for l in s["labels"].as_array_mut().into_iter().flatten() {
            let o = l["offset"].as_u64().unwrap_or(0);
            if let Some(&prev) = offs.iter().rev().find(|&&x| x < o) { l["offset"] = json!(prev); }
            l["time"] = json!(l["time"].as_i64().unwrap_or(0) + 1);
        } }
        if mode == 3 { for l in s["locals"].as_array_mut().into_iter().flatten() { let r = l["bound-to"]["reg"].as_i64().unwrap_or(0); l["bound-to"]["reg"] = json!(r + 1); } }
    }
    if mode == 4 { for c in dbg["consts"].as_array_mut().into_iter().flatten() { if let Some(v) = c["value"]["int"].as_i64() { c["value"]["int"] = json!(v + 1); } } }
}

fn check_case(case: &Case, corrupt: u32) -> CaseResult {
    let mut r = CaseResult::default();
    let out = drive::compile(case.tool, case.src.as_bytes(), &CompileOpts { debug_info: true, ..Default::default() });
    if let Some(p) = &out.panic { r.discard = Some(format!("panic:{}", p.signature())); return r; }
    let (bytes, dbg_text) = match (out.bytes, out.debug_info) {
        (Some(b), Some(d)) => (b, d),
        _ => { r.discard = Some(format!("compile-error:{}", first_error_line(&out.diag))); return r; },
    };
    r.compiled = true;
    let mut dbg: Value = match serde_json::from_str(&dbg_text) { Ok(v) => v, Err(e) => { r.machinery.push(format!("debug info is not JSON: {e}")); return r; } };
    r.dbg = Some(dbg.clone());
    if corrupt != 0 { corrupt_debug_info(&mut dbg, corrupt); }
    let walked = match walk_file(case.tool, &bytes) {
        Ok(w) => w,
        Err(e) => { r.machinery.push(format!("M2 walker failed on the written {} file: {e}; src: {}", case.tool.name(), case.src)); r.bytes = Some(bytes); return r; },
    };
    r.bytes = Some(bytes);
    compare(case, &dbg, &walked, &mut r);
    r
}

fn compare(case: &Case, dbg: &Value, walked: &Walked, r: &mut CaseResult) {
    let empty = vec![];
    let dscripts = dbg["exported-scripts"].as_array().unwrap_or(&empty);
    if dscripts.len() != case.scripts.len() {
        r.findings.push(Finding { kind: "instr-count", class: "script-count".into(), detail: json!({"message": format!("debug info lists {} scripts, the source has {}", dscripts.len(), case.scripts.len())}) });
    }
    r.facts += 1;
    let mut sizes_vary = false;
    for sm in &case.scripts {
        let Some(ds) = dscripts.iter().find(|d| d["name"] == sm.name.as_str()) else {
            r.findings.push(Finding { kind: "instr-count", class: "script-missing".into(), detail: json!({"message": format!("no debug info for script {}", sm.name)}) });
            continue;
        };
        // locate the script in the file by the generator's knowledge of the order
        let fs: Option<&FScript> = match sm.skind.as_str() {
            "anm" => walked.anm.get(sm.index),
            "std" => walked.std.as_ref(),
            "msg" => walked.msg.get(sm.index),
            "sub" => walked.subs.get(sm.index),
            "timeline" => walked.timelines.get(sm.index),
            _ => None,
        };
        let Some(fs) = fs else { r.machinery.push(format!("script {} ({} {}) not found in the written file; src: {}", sm.name, sm.skind, sm.index, case.src)); continue; };
        // the debug info's own statement of where the script went
        let ea = &ds["exported-as"];
        let identity_ok = match sm.skind.as_str() {
            "anm" => ea["type"] == "anm-script" && ea["index"] == sm.index,
            "std" => ea["type"] == "std-script",
            "sub" => ea["type"] == "olde-ecl-sub" && ea["index"] == sm.index,
            "timeline" => ea["type"] == "scl-script" && ea["index"] == sm.index,
            "msg" => ea["type"] == "msg-script" && ea["indices"].as_array().map_or(false, |ix| !ix.is_empty() && ix.iter().all(|i| {
                i.as_u64().and_then(|i| walked.msg_table.get(i as usize)).map_or(false, |&o| o as usize == fs.start)
            })),
            _ => false,
        };
        r.facts += 1;
        if !identity_ok {
            r.findings.push(Finding { kind: "script-identity", class: sm.skind.clone(), detail: json!({"message": format!("exported-as of {} does not designate the script's place in the file (expected {} #{})", sm.name, sm.skind, sm.index), "debug_info": dbg_script_fragment(ds), "m2": file_script_facts(fs), "msg_table": walked.msg_table}) });
        }
        check_script(case, sm, ds, fs, r);
        if fs.instrs.iter().map(|i| i.size).collect::<BTreeSet<_>>().len() > 1 { sizes_vary = true; }
        if fs.instrs.iter().any(|i| i.difficulty != 0xFF && i.difficulty.count_ones() < 4 && sm.skind == "sub") { r.features.insert("diff"); }
    }
    // consts
    let dconsts = dbg["consts"].as_array().unwrap_or(&empty);
    for k in &case.consts {
        let hits: Vec<&Value> = dconsts.iter().filter(|c| c["name"] == k.name.as_str() && !c["name-span"].is_null()).collect();
        r.facts += 1;
        let frag = json!(hits);
        if hits.len() != 1 {
            r.findings.push(Finding { kind: "const-value", class: if hits.is_empty() { "missing".into() } else { "duplicated".into() }, detail: json!({"message": format!("const {} appears {} times in the debug info", k.name, hits.len()), "debug_info": frag}) });
            continue;
        }
        let v = &hits[0]["value"];
        let ok = if k.float {
            let e = f32::from_bits(k.bits);
            match v.get("float") { Some(Value::Null) => !e.is_finite(), Some(x) => x.as_f64().map_or(false, |x| (x as f32).to_bits() == k.bits), None => false }
        } else {
            v.get("int").and_then(|x| x.as_i64()) == Some(k.bits as i32 as i64)
        };
        if !ok {
            let exp = if k.float { json!(f32::from_bits(k.bits)) } else { json!(k.bits as i32) };
            r.findings.push(Finding { kind: "const-value", class: if k.float { "float-vs-M6".into() } else { "int-vs-M6".into() }, detail: json!({"message": format!("const {}: debug info value differs from the reference evaluator", k.name), "expected": exp, "debug_info": frag}) });
        }
    }
    let user_consts = case.consts.iter().any(|k| k.name.starts_with('K'));
    if user_consts { r.features.insert("consts"); }
    if sizes_vary { r.features.insert("sizes-vary"); }
    if case.scripts.len() > 1 { r.features.insert("multi-script"); }
    r.nontrivial = sizes_vary || user_consts || case.scripts.iter().any(|s| !s.locals.is_empty() || s.events.iter().any(|e| matches!(e, Ev::Label { .. })));
}

fn check_script(case: &Case, sm: &ScriptM, ds: &Value, fs: &FScript, r: &mut CaseResult) {
    let frag = || json!({"script": sm.name, "debug_info": dbg_script_fragment(ds), "m2": file_script_facts(fs)});
    let empty = vec![];
    let rel: Vec<u64> = fs.instrs.iter().map(|i| (i.offset - fs.start) as u64).collect();
    let file_end: u64 = fs.instrs.iter().map(|i| i.size as u64).sum();
    // M2 self-consistency (contiguity and the terminal position): a disagreement here is ours, not truth's
    let mut cur = 0u64;
    for (k, i) in fs.instrs.iter().enumerate() { if rel[k] != cur { r.machinery.push(format!("M2: instructions of {} are not contiguous", sm.name)); return; } cur += i.size as u64; }
    if let Some(t) = fs.terminal { if (t - fs.start) as u64 != file_end { r.machinery.push(format!("M2: terminal of {} at {} but instruction sizes sum to {}; src: {}", sm.name, t - fs.start, file_end, case.src)); return; } }

    // 1. instruction count and offsets
    let doffs: Vec<Option<u64>> = ds["instrs"].as_array().unwrap_or(&empty).iter().map(|i| i["offset"].as_u64()).collect();
    r.facts += 1;
    if doffs.len() != rel.len() {
        r.findings.push(Finding { kind: "instr-count", class: if doffs.len() > rel.len() { "debug-more".into() } else { "debug-fewer".into() }, detail: json!({"message": format!("debug info lists {} instructions, the file's script has {}", doffs.len(), rel.len()), "facts": frag()}) });
    }
    let mut diffs: Vec<(usize, i64)> = vec![];
    for (k, (d, f)) in doffs.iter().zip(&rel).enumerate() {
        r.facts += 1;
        match d { Some(d) if d == f => {}, Some(d) => diffs.push((k, *d as i64 - *f as i64)), None => diffs.push((k, i64::MIN)) }
    }
    if let Some(&(k, d)) = diffs.first() {
        let class = if diffs.iter().all(|x| x.1 == d) && diffs.len() == rel.len() - k { "shifted-from-some-instruction" } else if diffs.len() == 1 { "single-instruction" } else { "drifting" };
        r.findings.push(Finding { kind: "instr-offset", class: class.into(), detail: json!({"message": format!("instrs[{k}].offset is {} but the instruction starts at {} in the written script", doffs[k].map_or(-1, |x| x as i64), rel[k]), "facts": frag()}) });
    }
    // 2. end offset
    r.facts += 1;
    let dend = ds["end-offset"].as_u64();
    if dend != Some(file_end) {
        r.findings.push(Finding { kind: "end-offset", class: if dend.map_or(false, |d| d > file_end) { "too-large".into() } else { "too-small".into() }, detail: json!({"message": format!("end-offset is {:?} but the script's instructions occupy {} bytes (terminal excluded)", dend, file_end), "facts": frag()}) });
    }
    // 3. labels
    let boundaries: BTreeSet<u64> = rel.iter().copied().chain([file_end]).collect();
    let dlabels = ds["labels"].as_array().unwrap_or(&empty);
    for l in dlabels {
        r.facts += 1;
        let ok = l["offset"].as_u64().map_or(false, |o| boundaries.contains(&o));
        if !ok {
            r.findings.push(Finding { kind: "label-offset", class: "not-a-boundary".into(), detail: json!({"message": format!("label {} has offset {} which is neither an instruction start nor the end of the written script", l["name"], l["offset"]), "facts": frag()}) });
        }
    }
    let first_with = |d: u32| fs.instrs.iter().position(|i| has_dword(&i.args, d));
    let mut n_labels = 0;
    for (ei, e) in sm.events.iter().enumerate() {
        let Ev::Label { name, time } = e else { continue };
        n_labels += 1;
        let hits: Vec<&Value> = dlabels.iter().filter(|l| l["name"] == name.as_str()).collect();
        r.facts += 1;
        if hits.len() != 1 {
            r.findings.push(Finding { kind: "label-offset", class: "label-missing".into(), detail: json!({"message": format!("label {name} appears {} times in the debug info", hits.len()), "facts": frag()}) });
            continue;
        }
        let (Some(off), Some(dtime)) = (hits[0]["offset"].as_u64(), hits[0]["time"].as_i64()) else {
            r.findings.push(Finding { kind: "label-offset", class: "malformed".into(), detail: json!({"message": format!("label {name} has no numeric offset/time"), "facts": frag()}) });
            continue;
        };
        // time by M3
        r.facts += 1;
        if dtime != *time as i64 {
            r.findings.push(Finding { kind: "label-time", class: "vs-M3".into(), detail: json!({"message": format!("label {name}: debug info time {dtime}, label arithmetic gives {time}"), "facts": frag()}) });
        }
        // position: the next emitting statement in source order
        let mut time_between = false;
        let mut next: Option<&Ev> = None;
        for e2 in &sm.events[ei + 1..] {
            match e2 { Ev::Time => time_between = true, Ev::Emit { .. } => { next = Some(e2); break; }, Ev::Label { .. } => {} }
        }
        let mut expected_pos: Option<u64> = None;
        match next {
            None => expected_pos = Some(file_end),
            Some(Ev::Emit { dword, index }) => {
                if let Some(k) = index { if let Some(&o) = rel.get(*k) { expected_pos = Some(o); } else { r.machinery.push(format!("model: instruction index {k} out of range in {}; src: {}", sm.name, case.src)); } }
                if let Some(d) = dword {
                    match first_with(*d) {
                        Some(k) => { if expected_pos.map_or(false, |p| p != rel[k]) { r.machinery.push(format!("model: index and marker anchors disagree in {}; src: {}", sm.name, case.src)); } expected_pos = Some(rel[k]); },
                        None => r.machinery.push(format!("model: marker {d:#x} not found in the written script {}; src: {}", sm.name, case.src)),
                    }
                }
            },
            _ => unreachable!(),
        }
        r.facts += 1;
        match expected_pos {
            Some(p) => if off != p {
                r.findings.push(Finding { kind: "label-offset", class: if next.is_none() { "label-at-end".into() } else { "vs-following-statement".into() }, detail: json!({"message": format!("label {name}: debug info offset {off}, but the statement that follows it in the source starts at {p} in the written script"), "facts": frag()}) });
            },
            None => if next.is_some() && off >= file_end && boundaries.contains(&off) {
                r.findings.push(Finding { kind: "label-offset", class: "at-end-but-code-follows".into(), detail: json!({"message": format!("label {name}: debug info offset {off} is the end of the script, but statements follow the label"), "facts": frag()}) });
            },
        }
        // lower bound: the last anchored statement before the label
        let prev = sm.events[..ei].iter().rev().find_map(|e| if let Ev::Emit { dword: Some(d), .. } = e { Some(*d) } else { None });
        if let Some(d) = prev {
            if let Some(k) = first_with(d) {
                r.facts += 1;
                if off < rel[k] + fs.instrs[k].size as u64 {
                    r.findings.push(Finding { kind: "label-offset", class: "before-preceding-statement".into(), detail: json!({"message": format!("label {name}: debug info offset {off} lies before the end of a statement that precedes it in the source ({})", rel[k] + fs.instrs[k].size as u64), "facts": frag()}) });
                }
            }
        }
        // upper bound: the next anchored statement after the label (strictly above if another statement lies between)
        let mut between = false;
        for e2 in &sm.events[ei + 1..] {
            match e2 {
                Ev::Emit { dword: Some(d), .. } => {
                    if let Some(k) = first_with(*d) {
                        r.facts += 1;
                        if off > rel[k] || (between && off == rel[k]) {
                            r.findings.push(Finding { kind: "label-offset", class: "after-following-statement".into(), detail: json!({"message": format!("label {name}: debug info offset {off} lies {} a statement that follows it in the source (at {}{})", if off > rel[k] { "after the start of" } else { "at" }, rel[k], if between { ", with another statement in between" } else { "" }), "facts": frag()}) });
                        }
                    }
                    break;
                },
                Ev::Emit { .. } => between = true,
                _ => {},
            }
        }
        // stored time of the instruction at that offset
        if !time_between && next.is_some() {
            if let Some(k) = rel.iter().position(|&o| o == off) {
                let fits = !sm.time16 || (*time >= i16::MIN as i32 && *time <= i16::MAX as i32);
                if fits {
                    r.facts += 1;
                    if fs.instrs[k].time as i64 != dtime {
                        r.findings.push(Finding { kind: "label-time", class: "vs-stored-instruction-time".into(), detail: json!({"message": format!("label {name}: time {dtime}, but the instruction at its offset {off} is stored with time {} and no time label separates them", fs.instrs[k].time), "facts": frag()}) });
                    }
                }
            }
        }
    }
    if n_labels > 0 { r.features.insert("labels"); }
    // 4. locals
    let dlocals = ds["locals"].as_array().unwrap_or(&empty);
    for l in &sm.locals {
        r.features.insert("locals");
        let hits: Vec<&Value> = dlocals.iter().filter(|d| d["name"] == l.name.as_str()).collect();
        r.facts += 1;
        if hits.len() != 1 {
            r.findings.push(Finding { kind: "local-register", class: "local-missing".into(), detail: json!({"message": format!("local {} appears {} times in the debug info", l.name, hits.len()), "facts": frag()}) });
            continue;
        }
        let setters: Vec<&m2::Instr> = fs.instrs.iter().filter(|i| dword_at(&i.args, 1) == Some(l.sentinel)).collect();
        if setters.len() != 1 { r.machinery.push(format!("model: {} instructions set the sentinel of {} in {}; src: {}", setters.len(), l.name, sm.name, case.src)); continue; }
        let d0 = dword_at(&setters[0].args, 0).unwrap();
        let file_reg: Option<i64> = if l.reg_as_float {
            let f = f32::from_bits(d0);
            if f.is_finite() && f.fract() == 0.0 { Some(f as i64) } else { None }
        } else { Some(d0 as i32 as i64) };
        let dreg = hits[0]["bound-to"]["reg"].as_i64();
        if dreg.is_none() || dreg != file_reg {
            r.findings.push(Finding { kind: "local-register", class: if l.float { "float-local".into() } else { "int-local".into() }, detail: json!({"message": format!("local {}: debug info register {:?}, but the instruction storing its initial value {} writes register {:?} (first argument dword {:#x})", l.name, dreg, if l.float { format!("{}", f32::from_bits(l.sentinel)) } else { format!("{}", l.sentinel) }, file_reg, d0), "facts": frag()}) });
        }
    }
    // 5b. the value of a const as used in the emitted code
    for (k, cname, float) in &sm.const_uses {
        let Some(ins) = fs.instrs.get(*k) else { r.machinery.push(format!("model: const use index {k} out of range; src: {}", case.src)); continue; };
        let Some(used) = dword_at(&ins.args, 1) else { r.machinery.push(format!("model: const use instruction has no second dword; src: {}", case.src)); continue; };
        if let Some(km) = case.consts.iter().find(|c| &c.name == cname) {
            r.facts += 1;
            if km.bits != used && !(*float && f32::from_bits(km.bits).is_nan() && f32::from_bits(used).is_nan()) {
                r.findings.push(Finding { kind: "const-value", class: "used-in-file-vs-M6".into(), detail: json!({"message": format!("const {cname}: the emitted instruction uses {used:#x}, the reference evaluator gives {:#x}", km.bits), "facts": frag()}) });
            }
        }
    }
}

// =============================================================================================
// generator: languages, nodes, rendering, flattening (M3)

#[derive(Clone, Copy, PartialEq, Eq, Debug)]
enum Lang { Anm12, Anm06, Std06, Std10, Msg06, Msg08, Msg12, EclSub, Timeline }

impl Lang {
    fn regs(self) -> bool { matches!(self, Lang::Anm12 | Lang::EclSub) }
    fn jumps(self) -> bool { matches!(self, Lang::Anm12 | Lang::Anm06 | Lang::Std06 | Lang::Std10 | Lang::EclSub) }
    fn diff(self) -> bool { self == Lang::EclSub }
    fn text(self) -> bool { matches!(self, Lang::Msg06 | Lang::Msg08 | Lang::Msg12) }
    fn skind(self) -> &'static str {
        match self { Lang::Anm12 | Lang::Anm06 => "anm", Lang::Std06 | Lang::Std10 => "std", Lang::Msg06 | Lang::Msg08 | Lang::Msg12 => "msg", Lang::EclSub => "sub", Lang::Timeline => "timeline" }
    }
    fn time16(self, game: Game) -> bool {
        match self { Lang::Anm12 | Lang::Anm06 | Lang::Msg06 | Lang::Msg08 | Lang::Msg12 => true, Lang::Timeline => matches!(game, Game::Th06 | Game::Th07), _ => false }
    }
}

fn hex_dwords(ds: &[u32]) -> String { ds.iter().map(|d| d.to_le_bytes().iter().map(|b| format!("{b:02x}")).collect::<String>()).collect::<Vec<_>>().join(" ") }

fn marker_src(lang: Lang, id: u32, extra: usize) -> String {
    let mut ds = vec![id];
    let extra = if lang == Lang::Std06 { 2 } else { extra };
    for j in 0..extra { ds.push(0x0EEE_0000 + j as u32); }
    let blob = hex_dwords(&ds);
    match lang {
        Lang::Anm12 => format!("ins_3(@blob=\"{blob}\");"),
        Lang::Anm06 => format!("ins_1(@blob=\"{blob}\");"),
        Lang::Std06 => format!("ins_0(@blob=\"{blob}\");"),
        Lang::Std10 => format!("ins_2(@blob=\"{blob}\");"),
        Lang::Msg06 | Lang::Msg08 | Lang::Msg12 => format!("ins_4(@blob=\"{blob}\");"),
        Lang::EclSub => format!("ins_35(@blob=\"{blob}\");"),
        Lang::Timeline => format!("ins_10(@arg0=0, @blob=\"{blob}\");"),
    }
}

fn text_src(lang: Lang, s: &str, ordinal: usize) -> String {
    match lang {
        Lang::Msg12 => format!("ins_{}(\"{s}\");", if ordinal % 2 == 0 { 16 } else { 17 }),
        _ => format!("ins_3(0, 0, \"{s}\");"),
    }
}

#[derive(Clone, Debug)]
enum Node {
    /// emits >= 1 instruction; `single`: exactly one
    Stmt { text: String, dword: Option<u32>, single: bool },
    /// emits nothing (a local const declaration)
    Silent(String),
    Label(String), TAbs(i32), TRel(i32),
    Bare(Vec<Node>), Loop(Vec<Node>), If(String, Vec<Node>), IfElse(String, Vec<Node>, Vec<Node>), Times(Vec<Node>),
    Goto,
}

fn first_label(nodes: &[Node]) -> Option<String> {
    for n in nodes {
        match n {
            Node::Label(l) => return Some(l.clone()),
            Node::Bare(b) | Node::Loop(b) | Node::If(_, b) | Node::Times(b) => if let Some(l) = first_label(b) { return Some(l); },
            Node::IfElse(_, a, b) => { if let Some(l) = first_label(a) { return Some(l); } if let Some(l) = first_label(b) { return Some(l); } },
            _ => {},
        }
    }
    None
}

fn render(nodes: &[Node], target: &Option<String>, ind: usize, out: &mut String) {
    let pad = "    ".repeat(ind);
    for n in nodes {
        match n {
            Node::Stmt { text, .. } | Node::Silent(text) => { out.push_str(&pad); out.push_str(text); out.push('\n'); },
            Node::Label(l) => out.push_str(&format!("{l}:\n")),
            Node::TAbs(t) => out.push_str(&format!("{t}:\n")),
            Node::TRel(t) => out.push_str(&format!("+{t}:\n")),
            Node::Goto => if let Some(t) = target { out.push_str(&format!("{pad}goto {t};\n")); },
            Node::Bare(b) => { out.push_str(&format!("{pad}{{\n")); render(b, target, ind + 1, out); out.push_str(&format!("{pad}}}\n")); },
            Node::Loop(b) => { out.push_str(&format!("{pad}loop {{\n")); render(b, target, ind + 1, out); out.push_str(&format!("{pad}}}\n")); },
            Node::If(c, b) => { out.push_str(&format!("{pad}if ({c}) {{\n")); render(b, target, ind + 1, out); out.push_str(&format!("{pad}}}\n")); },
            Node::IfElse(c, a, b) => {
                out.push_str(&format!("{pad}if ({c}) {{\n")); render(a, target, ind + 1, out);
                out.push_str(&format!("{pad}}} else {{\n")); render(b, target, ind + 1, out); out.push_str(&format!("{pad}}}\n"));
            },
            Node::Times(b) => { out.push_str(&format!("{pad}times(3) {{\n")); render(b, target, ind + 1, out); out.push_str(&format!("{pad}}}\n")); },
        }
    }
}

struct Flat { t: i32, events: Vec<Ev>, exact: bool, n: usize, has_target: bool }

fn flatten(nodes: &[Node], f: &mut Flat) {
    for n in nodes {
        match n {
            Node::Stmt { dword, single, .. } => {
                f.events.push(Ev::Emit { dword: *dword, index: if f.exact { Some(f.n) } else { None } });
                if *single { f.n += 1; } else { f.exact = false; }
            },
            Node::Silent(_) => {},
            Node::Label(l) => f.events.push(Ev::Label { name: l.clone(), time: f.t }),
            Node::TAbs(t) => { f.t = *t; f.events.push(Ev::Time); },
            // M3: 32-bit wrap by explicit truncation of the 64-bit sum
            Node::TRel(t) => { f.t = (f.t as i64 + *t as i64) as i32; f.events.push(Ev::Time); },
            Node::Goto => if f.has_target { f.events.push(Ev::Emit { dword: None, index: if f.exact { Some(f.n) } else { None } }); f.n += 1; },
            Node::Bare(b) => flatten(b, f),
            Node::Loop(b) => { flatten(b, f); f.events.push(Ev::Emit { dword: None, index: None }); f.exact = false; },
            Node::If(_, b) => { f.events.push(Ev::Emit { dword: None, index: None }); f.exact = false; flatten(b, f); },
            // if/else: conditional jump, then-block, jump over the else-block, else-block
            Node::IfElse(_, a, b) => { f.events.push(Ev::Emit { dword: None, index: None }); f.exact = false; flatten(a, f); f.events.push(Ev::Emit { dword: None, index: None }); flatten(b, f); },
            Node::Times(b) => { f.events.push(Ev::Emit { dword: None, index: None }); f.exact = false; flatten(b, f); f.events.push(Ev::Emit { dword: None, index: None }); },
        }
    }
}

// ---------------------------------------------------------------------------------------------
// skeletons

#[derive(Clone, Debug)]
enum Sk { M, D, X, P, G, B(Vec<Sk>), L(Vec<Sk>), I(Vec<Sk>), IE(Vec<Sk>, Vec<Sk>), T(Vec<Sk>) }

fn parse_sk(s: &str) -> Vec<Sk> {
    fn go(toks: &mut std::iter::Peekable<std::str::SplitWhitespace>) -> Vec<Sk> {
        let mut v = vec![];
        while let Some(&t) = toks.peek() {
            toks.next();
            match t {
                "M" => v.push(Sk::M), "D" => v.push(Sk::D), "X" => v.push(Sk::X), "P" => v.push(Sk::P), "G" => v.push(Sk::G),
                "B{" => v.push(Sk::B(go(toks))), "L{" => v.push(Sk::L(go(toks))), "I{" => v.push(Sk::I(go(toks))),
                "E{" => { let e = go(toks); match v.pop() { Some(Sk::I(t)) => v.push(Sk::IE(t, e)), _ => panic!("E{{ must follow I{{ }}") } }, "T{" => v.push(Sk::T(go(toks))),
                "}" => return v,
                other => panic!("bad skeleton token {other}"),
            }
        }
        v
    }
    go(&mut s.split_whitespace().peekable())
}

/// skeletons for languages with registers (ANM TH12, old ECL subs)
const SK_REGS: &[&str] = &[
    "M", "", "M M", "D M", "D X M", "L{ M }", "M L{ M M } M", "D B{ D X } D M", "D D B{ D X } D", "I{ M } M", "D I{ X M } M",
    "T{ M } M", "D T{ D M } D", "L{ I{ M } M }", "B{ D B{ D X } D } D", "D X D X D", "M G M", "L{ M G }", "D D D X", "B{ } M", "D L{ D X } X",
    "I{ M } E{ M } M", "D I{ D X } E{ D } D",
];
const SK_REGS_THOROUGH: &[&str] = &[
    "D B{ D B{ D X } X } D X", "I{ D T{ M } } D M", "L{ D } L{ D } D", "D X B{ D X } B{ D X } D", "T{ I{ M } } G", "M M M M", "D I{ D } D I{ D } D",
];
/// extra skeletons using difficulty switches (ECL subs only)
const SK_DIFF: &[&str] = &["D P M", "D P", "D L{ P } M", "D I{ P } M", "D P P", "D B{ D P } D M"];
/// languages with jumps but no registers (ANM TH06, STD)
const SK_JUMPS: &[&str] = &["M", "", "M M", "L{ M }", "M L{ M M } M", "M G M", "L{ M G }", "B{ M } M", "B{ } M", "L{ L{ M } M }", "M M M"];
/// straight-line languages (MSG, timelines)
const SK_FLAT: &[&str] = &["M", "", "M M", "M M M", "M B{ M } M", "M M M M"];

const TEXT_LETTERS: &str = "abcdefghi";

struct Inst<'c, 'p> {
    ch: &'c mut Chooser<'p>,
    lang: Lang,
    game: Game,
    prefix: String,
    marker_base: u32,
    n_marker: u32,
    n_label: u32,
    n_local: u32,
    n_diff: u32,
    scope: Vec<Vec<(String, bool)>>,
    locals: Vec<LocalM>,
    /// no choices at all (fixed companion scripts)
    frozen: bool,
    /// length of the first text (full product over 0..=9 in the MSG family)
    len0: Option<usize>,
}

impl<'c, 'p> Inst<'c, 'p> {
    fn pick(&mut self, n: usize) -> usize { if self.frozen { 0 } else { self.ch.pick(n) } }
    fn time32(&self) -> bool { !self.lang.time16(self.game) }
    fn reg_as_float(&self, float: bool) -> bool {
        // how a register id is stored in the output slot of the assignment instruction
        float && match self.lang { Lang::Anm12 => true, Lang::EclSub => self.game != Game::Th06, _ => false }
    }
    fn label(&mut self) -> Node { self.n_label += 1; Node::Label(format!("{}L{}", self.prefix, self.n_label)) }
    fn slot(&mut self, out: &mut Vec<Node>) {
        // basic contents cost 1 deviation, combined contents 2
        let basic = if self.frozen { 0 } else { self.ch.pick_w(5, 1) };
        match basic {
            1 => return out.push(self.label()),
            2 => { out.push(self.label()); out.push(self.label()); return; },
            3 => return out.push(Node::TRel(5)),
            4 => return out.push(Node::TAbs(10)),
            _ => {},
        }
        let n_combo = if self.time32() { 6 } else { 4 };
        let combo = if self.frozen { 0 } else { self.ch.pick_w(n_combo, 2) };
        match combo {
            0 => {},
            1 => { out.push(self.label()); out.push(Node::TRel(5)); },
            2 => { out.push(Node::TRel(3)); out.push(self.label()); },
            3 => { out.push(self.label()); out.push(Node::TAbs(20)); out.push(self.label()); },
            4 => out.push(Node::TRel(2147483647)),
            _ => { out.push(self.label()); out.push(Node::TRel(2147483647)); out.push(self.label()); },
        }
    }
    fn find_var(&self, float: bool) -> Option<String> {
        self.scope.iter().rev().flat_map(|s| s.iter().rev()).find(|v| v.1 == float).map(|v| v.0.clone())
    }
    fn find_vars(&self, float: bool) -> Vec<String> {
        self.scope.iter().rev().flat_map(|s| s.iter().rev()).filter(|v| v.1 == float).map(|v| v.0.clone()).collect()
    }
    fn marker(&mut self) -> Node {
        let k = self.n_marker; self.n_marker += 1;
        let id = self.marker_base + k;
        if self.lang.text() {
            // texts of varying length; alternative: furigana-style text / blob marker
            let default_len = if k == 0 { self.len0.unwrap_or(3) } else { (3 + 2 * k as usize) % 10 };
            let alt = self.pick(4);
            let (len, furi) = match alt { 0 => (default_len, false), 1 => ((default_len + 1) % 10, false), 2 => (default_len.max(1), true), _ => return Node::Stmt { text: marker_src(self.lang, id, (k as usize) % 3), dword: Some(id), single: true } };
            let s = if furi { format!("|{}", &TEXT_LETTERS[..len - 1]) } else { TEXT_LETTERS[..len].to_string() };
            return Node::Stmt { text: text_src(self.lang, &s, k as usize), dword: None, single: true };
        }
        let alt = self.pick(2);
        Node::Stmt { text: marker_src(self.lang, id, (k as usize + 2 * alt) % 3), dword: Some(id), single: true }
    }
    fn decl(&mut self) -> Node {
        let float = self.pick(2) == 1;
        let k = self.n_local; self.n_local += 1;
        let name = format!("{}v{}", self.prefix, k);
        let (sentinel, lit) = if float { let f = (7101 + k) as f32; (f.to_bits(), format!("{f:.1}")) } else { (7001 + k, format!("{}", 7001 + k)) };
        self.scope.last_mut().unwrap().push((name.clone(), float));
        self.locals.push(LocalM { name: name.clone(), float, sentinel, reg_as_float: self.reg_as_float(float) });
        Node::Stmt { text: format!("{} {name} = {lit};", if float { "float" } else { "int" }), dword: Some(sentinel), single: true }
    }
    fn expr(&mut self) -> Node {
        let ints = self.find_vars(false);
        let floats = self.find_vars(true);
        if let Some(a) = ints.first() {
            let b = ints.get(1).unwrap_or(a);
            let text = if self.pick(2) == 0 { format!("{a} = ({a} * 2) + ({b} * 3);") } else { format!("{a} = (({a} + {b}) * ({a} - 4)) + ({b} * {a});") };
            Node::Stmt { text, dword: None, single: false }
        } else if let Some(a) = floats.first() {
            Node::Stmt { text: format!("{a} = ({a} * 2.0) + ({a} * 3.0);"), dword: None, single: false }
        } else { self.marker() }
    }
    fn diff(&mut self) -> Node {
        let Some(a) = self.find_var(false) else { return self.marker(); };
        let base = 8100 + 4 * self.n_diff; self.n_diff += 1;
        let text = match self.pick(3) { 0 => format!("{a} = {}:{}:{}:{};", base, base + 1, base + 2, base + 3), 1 => format!("{a} = {}:{};", base, base + 1), _ => format!("{a} = {}::{}:{};", base, base + 2, base + 3) };
        Node::Stmt { text, dword: Some(base), single: false }
    }
    fn cond(&self) -> String {
        if let Some(a) = self.find_var(false) { format!("{a} == 3") }
        else if let Some(f) = self.find_var(true) { format!("{f} == 3.0") }
        else { match (self.lang, self.game) { (Lang::EclSub, Game::Th06) => "$REG[-10004] == 3".into(), _ => "$REG[10003] == 3".into() } }
    }
    fn block(&mut self, sk: &[Sk]) -> Vec<Node> {
        let mut out = vec![];
        self.scope.push(vec![]);
        for s in sk { self.slot(&mut out); let n = self.stmt(s); out.push(n); }
        self.slot(&mut out);
        self.scope.pop();
        out
    }
    fn stmt(&mut self, s: &Sk) -> Node {
        match s {
            Sk::M => self.marker(),
            Sk::D => self.decl(),
            Sk::X => self.expr(),
            Sk::P => self.diff(),
            Sk::G => Node::Goto,
            Sk::B(b) => Node::Bare(self.block(b)),
            Sk::L(b) => Node::Loop(self.block(b)),
            Sk::I(b) => { let c = self.cond(); Node::If(c, self.block(b)) },
            Sk::IE(a, b) => { let c = self.cond(); let a = self.block(a); Node::IfElse(c, a, self.block(b)) },
            Sk::T(b) => Node::Times(self.block(b)),
        }
    }
}

/// A rendered script + its model.
struct BuiltScript { header: String, body: String, model: ScriptM }

struct ScriptSpec<'a> { lang: Lang, name: &'a str, index: usize, prefix: &'a str, marker_base: u32, sk: &'a [Sk], frozen: bool, params: usize, /** bit p set: parameter p is declared without a name */ unnamed: u32, const_use: Option<(&'a str, bool)>, local_consts: Vec<String>, len0: Option<usize> }

fn build_script(ch: &mut Chooser, game: Game, sp: &ScriptSpec) -> BuiltScript {
    let mut inst = Inst { ch, lang: sp.lang, game, prefix: sp.prefix.to_string(), marker_base: sp.marker_base, n_marker: 0, n_label: 0, n_local: 0, n_diff: 0, scope: vec![vec![]], locals: vec![], frozen: sp.frozen, len0: sp.len0 };
    let mut pre: Vec<Node> = vec![];
    let mut const_uses = vec![];
    let mut params_src = vec![];
    // a const read into a fresh local: the very first instruction of the script
    if let Some((cname, float)) = sp.const_use {
        let v = format!("{}u", sp.prefix);
        pre.push(Node::Stmt { text: format!("{} {v} = {cname};", if float { "float" } else { "int" }), dword: None, single: true });
        inst.scope[0].push((v, float));
        const_uses.push((0usize, cname.to_string(), float));
    }
    // sub parameters: assigned a sentinel so that the register the emitted code uses for them is visible
    for p in 0..sp.params {
        let float = p % 2 == 1;
        let name = format!("{}p{}", sp.prefix, p);
        let (sentinel, lit) = if float { let f = (7151 + p) as f32; (f.to_bits(), format!("{f:.1}")) } else { (7051 + p as u32, format!("{}", 7051 + p)) };
        if sp.unnamed >> p & 1 == 1 { params_src.push((if float { "float" } else { "int" }).to_string()); continue; }
        params_src.push(format!("{} {name}", if float { "float" } else { "int" }));
        pre.push(Node::Stmt { text: format!("{name} = {lit};"), dword: Some(sentinel), single: true });
        inst.scope[0].push((name.clone(), float));
        let raf = inst.reg_as_float(float);
        inst.locals.push(LocalM { name, float, sentinel, reg_as_float: raf });
    }
    for c in &sp.local_consts { pre.push(Node::Silent(c.clone())); }
    let mut nodes = pre;
    nodes.extend(inst.block(sp.sk));
    let locals = inst.locals;
    let target = first_label(&nodes);
    let mut body = String::new();
    render(&nodes, &target, 1, &mut body);
    let mut f = Flat { t: 0, events: vec![], exact: true, n: 0, has_target: target.is_some() };
    flatten(&nodes, &mut f);
    let header = match sp.lang { Lang::EclSub => format!("void {}({})", sp.name, params_src.join(", ")), _ => format!("script {}", sp.name) };
    BuiltScript { header, body, model: ScriptM { name: sp.name.to_string(), skind: sp.lang.skind().to_string(), index: sp.index, events: f.events, locals, const_uses, time16: sp.lang.time16(game) } }
}

// ---------------------------------------------------------------------------------------------
// file assembly

const ANM_ENTRY: &str = "entry {\n    path: \"subdir/fileN.png\",\n    has_data: false,\n    img_width: 8, img_height: 4, img_format: 3,\n    sprites: { spriteN: {id: N, x: 0.0, y: 0.0, w: 16.0, h: 16.0} },\n}\n";
const STD06_META: &str = "meta {\n    unknown: 7,\n    stage_name: \"dm\",\n    bgm: [ {path: \"a\", name: \"dm\"}, {path: \"b\", name: \"dn\"}, {path: \" \", name: \" \"}, {path: \" \", name: \"x\"} ],\n    objects: {},\n    instances: [],\n}\n";
const STD10_META: &str = "meta {\n    unknown: 7,\n    anm_path: \"stage01.anm\",\n    objects: {},\n    instances: [],\n}\n";

fn script_text(b: &BuiltScript) -> String { format!("{} {{\n{}}}\n", b.header, b.body) }

/// `scripts`: in file order; `entry_breaks`: ANM only, indices of scripts that start a new entry (0 always implied).
/// `msg_table`: MSG only, the shape of the script table.
fn assemble(tool: Tool, consts_src: &str, scripts: &[&BuiltScript], timelines: &[&BuiltScript], entry_breaks: &[usize], msg_table: u32) -> String {
    let mut s = String::new();
    match tool.kind {
        Kind::Anm => {
            s += &ANM_ENTRY.replace('N', "0");
            s += consts_src;
            for (k, b) in scripts.iter().enumerate() {
                if k > 0 && entry_breaks.contains(&k) { s += &ANM_ENTRY.replace('N', &k.to_string()); }
                // explicit script numbers (msg_table doubles as the ANM numbering variant): the number is the id stored in the
                // file's script table, NOT the script's position; debug info and script-name consts go by position
                let text = script_text(b);
                s += &match msg_table {
                    1 => text.replacen("script ", &format!("script {} ", scripts.len() - 1 - k), 1),
                    2 => text.replacen("script ", &format!("script {} ", 4 * k + 3), 1),
                    _ => text,
                };
            }
        },
        Kind::Std => {
            s += if m2::std_is_06_format(tool.game) { STD06_META } else { STD10_META };
            s += consts_src;
            s += &script_text(scripts[0]);
        },
        Kind::Msg => {
            // table shapes: 0 = one row per script; 1 = + a later row for script 0 again; 2 = sparse rows with gaps filled by `default`
            let mut rows: Vec<String> = scripts.iter().enumerate().map(|(k, b)| format!("{}: {{script: \"{}\"}}", if msg_table == 2 { 2 * k } else { k }, b.model.name)).collect();
            if msg_table == 1 { rows.push(format!("{}: {{script: \"{}\"}}", scripts.len() + 1, scripts[0].model.name)); }
            if msg_table == 2 { rows.push(format!("default: {{script: \"{}\"}}", scripts.last().unwrap().model.name)); }
            s += &format!("meta {{ table: {{ {} }} }}\n", rows.join(", "));
            s += consts_src;
            for b in scripts { s += &script_text(b); }
        },
        Kind::Ecl => {
            s += consts_src;
            for b in timelines { s += &script_text(b); }
            for b in scripts { s += &script_text(b); }
        },
        _ => unreachable!(),
    }
    s
}

fn sub_lang(tool: Tool) -> Lang {
    match (tool.kind, tool.game) {
        (Kind::Anm, Game::Th06) => Lang::Anm06, (Kind::Anm, _) => Lang::Anm12,
        (Kind::Std, g) => if m2::std_is_06_format(g) { Lang::Std06 } else { Lang::Std10 },
        (Kind::Msg, Game::Th06) => Lang::Msg06, (Kind::Msg, Game::Th08) => Lang::Msg08, (Kind::Msg, _) => Lang::Msg12,
        (Kind::Ecl, _) => Lang::EclSub,
        _ => unreachable!(),
    }
}

/// consts that truth defines automatically for script / sub / sprite names (M9: position in file order)
fn auto_consts(tool: Tool, scripts: &[&BuiltScript], entry_breaks: &[usize]) -> Vec<ConstM> {
    let mut v = vec![];
    match tool.kind {
        Kind::Anm => {
            for (k, b) in scripts.iter().enumerate() { v.push(ConstM { name: b.model.name.clone(), float: false, bits: k as u32 }); }
            v.push(ConstM { name: "sprite0".into(), float: false, bits: 0 });
            for &k in entry_breaks { if k > 0 { v.push(ConstM { name: format!("sprite{k}"), float: false, bits: k as u32 }); } }
        },
        Kind::Ecl => for (k, b) in scripts.iter().enumerate() { v.push(ConstM { name: b.model.name.clone(), float: false, bits: k as u32 }); },
        _ => {},
    }
    v
}

/// Family (a)/(b)/(c): one enumerated script A (skeleton `sk`, language `lang`) inside a file layout.
fn gen_body_case(ch: &mut Chooser, tool: Tool, lang: Lang, sk: &[Sk], sk_text: &str, len0: Option<usize>) -> Case {
    let game = tool.game;
    // layout: which companion scripts surround A
    let n_layouts = match (tool.kind, lang) { (Kind::Std, _) => 1, (Kind::Ecl, Lang::Timeline) => if game == Game::Th06 { 1 } else { 3 }, (Kind::Anm, _) | (Kind::Msg, _) => 4, _ => 3 };
    let layout = ch.pick(n_layouts);
    // sub parameter lists: () | (int) | (int, float) | th07+: (int, float, int, float)
    let params = if lang == Lang::EclSub { [0, 1, 2, 4][ch.pick(if game == Game::Th06 { 3 } else { 4 })] } else { 0 };
    // four parameters: the first int, or the first int and the first float, may be declared without a name; the named ones
    // behind them keep their place in the per-type register sequence
    let unnamed = if params == 4 { [0u32, 0b0001, 0b0011][ch.pick(3)] } else { 0 };
    let name_a = if tool.kind == Kind::Std { "main" } else { "scrA" };
    let spec_a = |index: usize| ScriptSpec { lang, name: name_a, index, prefix: "a", marker_base: 0x5A5A_0000, sk, frozen: false, params, unnamed, const_use: None, local_consts: vec![], len0 };
    let main_lang = sub_lang(tool);
    // companion scripts are built from explicit nodes so that they always contain labels
    let companion = |name: &str, l: Lang, index: usize, prefix: &str, base: u32| -> BuiltScript {
        let mut nodes: Vec<Node> = vec![];
        let mut locals = vec![];
        if l.regs() {
            let nm = format!("{prefix}q"); let sentinel = 7090 + (base & 0xFF);
            nodes.push(Node::Stmt { text: format!("int {nm} = {sentinel};"), dword: Some(sentinel), single: true });
            locals.push(LocalM { name: nm, float: false, sentinel, reg_as_float: false });
        }
        let stmt = |k: u32, extra: usize| -> Node {
            if l.text() { Node::Stmt { text: text_src(l, &TEXT_LETTERS[..(2 + 3 * k as usize) % 10], k as usize), dword: None, single: true } }
            else { Node::Stmt { text: marker_src(l, base + k, extra), dword: Some(base + k), single: true } }
        };
        nodes.push(stmt(0, 1));
        nodes.push(Node::Label(format!("{prefix}Qa")));
        nodes.push(Node::TRel(7));
        nodes.push(stmt(1, 0));
        nodes.push(Node::Label(format!("{prefix}Qb")));
        let mut body = String::new();
        render(&nodes, &None, 1, &mut body);
        let mut f = Flat { t: 0, events: vec![], exact: true, n: 0, has_target: false };
        flatten(&nodes, &mut f);
        let header = if l == Lang::EclSub { format!("void {name}()") } else { format!("script {name}") };
        BuiltScript { header, body, model: ScriptM { name: name.to_string(), skind: l.skind().to_string(), index, events: f.events, locals, const_uses: vec![], time16: l.time16(game) } }
    };
    let mut scripts: Vec<BuiltScript> = vec![];
    let mut timelines: Vec<BuiltScript> = vec![];
    let mut entry_breaks: Vec<usize> = vec![0];
    let mut msg_table = 0u32;
    if tool.kind == Kind::Ecl && lang == Lang::Timeline {
        // subs: one companion; timelines: layout 0 = [A], 1 = [F, A], 2 = [A, F]
        scripts.push(companion("subF", Lang::EclSub, 0, "f", 0x5B5B_0000));
        match layout {
            0 => timelines.push(build_script(ch, game, &spec_a(0))),
            1 => { timelines.push(companion("tlF", Lang::Timeline, 0, "g", 0x5C5C_0000)); timelines.push(build_script(ch, game, &spec_a(1))); },
            _ => { timelines.push(build_script(ch, game, &spec_a(0))); timelines.push(companion("tlF", Lang::Timeline, 1, "g", 0x5C5C_0000)); },
        }
    } else {
        if tool.kind == Kind::Ecl { timelines.push(companion("tlF", Lang::Timeline, 0, "g", 0x5C5C_0000)); }
        match (tool.kind, layout) {
            (_, 0) => scripts.push(build_script(ch, game, &spec_a(0))),
            (_, 1) => { scripts.push(companion("scrF", main_lang, 0, "f", 0x5B5B_0000)); scripts.push(build_script(ch, game, &spec_a(1))); },
            (Kind::Anm, 2) => { scripts.push(build_script(ch, game, &spec_a(0))); scripts.push(companion("scrG", main_lang, 1, "h", 0x5D5D_0000)); entry_breaks.push(1); },
            (Kind::Anm, _) => { scripts.push(companion("scrF", main_lang, 0, "f", 0x5B5B_0000)); scripts.push(build_script(ch, game, &spec_a(1))); scripts.push(companion("scrG", main_lang, 2, "h", 0x5D5D_0000)); entry_breaks.push(1); },
            (Kind::Msg, 3) => { scripts.push(build_script(ch, game, &spec_a(0))); scripts.push(companion("scrG", main_lang, 1, "h", 0x5D5D_0000)); msg_table = 2; },
            (_, _) => { scripts.push(build_script(ch, game, &spec_a(0))); scripts.push(companion("scrG", main_lang, 1, "h", 0x5D5D_0000)); msg_table = 1; },
        }
    }
    let srefs: Vec<&BuiltScript> = scripts.iter().collect();
    let trefs: Vec<&BuiltScript> = timelines.iter().collect();
    let variant = if tool.kind == Kind::Anm { ch.pick_free(3) as u32 } else { msg_table };
    let src = assemble(tool, "", &srefs, &trefs, &entry_breaks, variant);
    let consts = auto_consts(tool, &srefs, &entry_breaks);
    let mut models: Vec<ScriptM> = vec![];
    // debug info order = compile order; the model order is irrelevant (matched by name)
    for b in timelines { models.push(b.model); }
    for b in scripts { models.push(b.model); }
    Case { family: format!("body:{}:{}:[{}]:layout{}", tool.name(), lang.skind(), sk_text, layout), tool, src, scripts: models, consts }
}

// ---------------------------------------------------------------------------------------------
// family (d): consts (M6)

#[derive(Clone, Debug)]
enum CE { I(i32), F(f32), Ref(usize), Bin(&'static str, Box<CE>, Box<CE>), Un(&'static str, Box<CE>), ToInt(Box<CE>), ToFloat(Box<CE>) }

const C_INTS: [i32; 7] = [2, 7, -3, 65536, 2147483647, 0, 33];
const C_FLOATS: [f32; 5] = [1.5, -0.25, 3.0, 1.0e10, 0.1];
const C_IOPS: [&str; 11] = ["+", "-", "*", "<<", ">>", ">>>", "&", "|", "^", "%", "/"];
const C_FOPS: [&str; 4] = ["+", "*", "-", "/"];

fn lit_i(x: i32) -> String { if x < 0 { format!("(-{})", (x as i64).unsigned_abs()) } else { x.to_string() } }
fn lit_f(x: f32) -> String { let mut s = format!("{}", x.abs()); if !s.contains('.') { s.push_str(".0"); } if x < 0.0 { format!("(-{s})") } else { s } }

fn ce_render(e: &CE, names: &[String]) -> String {
    match e {
        CE::I(x) => lit_i(*x), CE::F(x) => lit_f(*x), CE::Ref(j) => names[*j].clone(),
        CE::Bin(op, a, b) => format!("({} {op} {})", ce_render(a, names), ce_render(b, names)),
        CE::Un(op, a) => format!("({op}{})", ce_render(a, names)),
        CE::ToInt(a) => format!("int({})", ce_render(a, names)),
        CE::ToFloat(a) => format!("float({})", ce_render(a, names)),
    }
}

/// M6 evaluation; `float`: the static type of `e`.  None = undefined (division by zero).
fn ce_eval(e: &CE, float: bool, defs: &[(bool, CE)]) -> Option<Val> {
    Some(match e {
        CE::I(x) => Val::I(*x), CE::F(x) => Val::F(*x),
        CE::Ref(j) => ce_eval(&defs[*j].1, defs[*j].0, defs)?,
        CE::Bin(op, a, b) => m1_binop(op, float, &ce_eval(a, float, defs)?, &ce_eval(b, float, defs)?)?,
        CE::Un(op, a) => m1_unop(op, float, &ce_eval(a, float, defs)?)?,
        CE::ToInt(a) => Val::I(ce_eval(a, true, defs)?.as_int()),
        CE::ToFloat(a) => Val::F(ce_eval(a, false, defs)?.as_int() as f32),
    })
}

fn gen_ce(ch: &mut Chooser, float: bool, depth: u32, i: usize, types: &[bool]) -> CE {
    let later: Vec<usize> = (i + 1..types.len()).collect();
    // alternatives: 0 literal (default) | other literals | refs to later consts | operators
    let n_lits = if float { C_FLOATS.len() } else { C_INTS.len() };
    let n_ops = if depth == 0 { 0 } else if float { C_FOPS.len() + 1 } else { C_IOPS.len() + 2 };
    let k = ch.pick(n_lits + later.len() + n_ops);
    if k < n_lits { return if float { CE::F(C_FLOATS[k]) } else { CE::I(C_INTS[k]) }; }
    let k = k - n_lits;
    if k < later.len() {
        let j = later[k];
        return if types[j] == float { CE::Ref(j) } else if float { CE::ToFloat(Box::new(CE::Ref(j))) } else { CE::ToInt(Box::new(CE::Ref(j))) };
    }
    let k = k - later.len();
    if float {
        if k < C_FOPS.len() { let a = gen_ce(ch, true, depth - 1, i, types); let b = gen_ce(ch, true, depth - 1, i, types); CE::Bin(C_FOPS[k], Box::new(a), Box::new(b)) }
        else { CE::Un("-", Box::new(gen_ce(ch, true, depth - 1, i, types))) }
    } else {
        if k < C_IOPS.len() { let a = gen_ce(ch, false, depth - 1, i, types); let b = gen_ce(ch, false, depth - 1, i, types); CE::Bin(C_IOPS[k], Box::new(a), Box::new(b)) }
        else if k == C_IOPS.len() { CE::Un("-", Box::new(gen_ce(ch, false, depth - 1, i, types))) }
        else { CE::Un("~", Box::new(gen_ce(ch, false, depth - 1, i, types))) }
    }
}

const PERMS3: [[usize; 3]; 6] = [[0, 1, 2], [2, 1, 0], [1, 0, 2], [0, 2, 1], [1, 2, 0], [2, 0, 1]];

/// None = the generated const set is undefined (division by zero): not a compilable program by construction
fn gen_const_case(ch: &mut Chooser, tool: Tool, depth: u32, n: usize) -> Option<Case> {
    let game = tool.game;
    let lang = sub_lang(tool);
    // the number of consts (outer loop) and their declaration order are a full product (free choices)
    let types: Vec<bool> = (0..n).map(|_| ch.pick(2) == 1).collect();
    let names: Vec<String> = (0..n).map(|i| format!("K{i}")).collect();
    let mut defs: Vec<(bool, CE)> = vec![];
    for i in 0..n { let e = gen_ce(ch, types[i], depth, i, &types); defs.push((types[i], e)); }
    let order: Vec<usize> = match n { 1 => vec![0], 2 => if ch.pick_free(2) == 0 { vec![0, 1] } else { vec![1, 0] }, _ => PERMS3[ch.pick_free(6)].to_vec() };
    // placement: all at file level | K0 (which no other const refers to) inside the script body
    let local_last = ch.pick(2) == 1;
    let decl = |i: usize| format!("const {} {} = {};", if types[i] { "float" } else { "int" }, names[i], ce_render(&defs[i].1, &names));
    let mut file_level = String::new();
    let mut local_consts = vec![];
    for (pos, &i) in order.iter().enumerate() {
        if local_last && i == 0 { local_consts.push(decl(i)); } else { file_level += &decl(i); file_level.push('\n'); }
    }
    let mut consts = vec![];
    for i in 0..n {
        let v = ce_eval(&defs[i].1, types[i], &defs)?;
        consts.push(ConstM { name: names[i].clone(), float: types[i], bits: match v { Val::I(x) => x as u32, Val::F(x) => x.to_bits() } });
    }
    let sk = parse_sk("M");
    let const_use = if lang.regs() { Some((names[0].as_str(), types[0])) } else { None };
    let a = build_script(ch, game, &ScriptSpec { lang, name: if tool.kind == Kind::Std { "main" } else { "scrA" }, index: 0, prefix: "a", marker_base: 0x5A5A_0000, sk: &sk, frozen: true, params: 0, unnamed: 0, const_use, local_consts, len0: None });
    let mut timelines = vec![];
    if tool.kind == Kind::Ecl {
        let tsk = parse_sk("M");
        timelines.push(build_script(ch, game, &ScriptSpec { lang: Lang::Timeline, name: "tlF", index: 0, prefix: "g", marker_base: 0x5C5C_0000, sk: &tsk, frozen: true, params: 0, unnamed: 0, const_use: None, local_consts: vec![], len0: None }));
    }
    let srefs = vec![&a];
    let trefs: Vec<&BuiltScript> = timelines.iter().collect();
    let src = assemble(tool, &file_level, &srefs, &trefs, &[0], 0);
    consts.extend(auto_consts(tool, &srefs, &[0]));
    let mut models: Vec<ScriptM> = timelines.iter().map(|b| b.model.clone()).collect();
    models.push(a.model.clone());
    Some(Case { family: format!("consts:{}", tool.name()), tool, src, scripts: models, consts })
}

// =============================================================================================
// enumeration

fn tools() -> Vec<Tool> {
    vec![
        Tool::new(Kind::Anm, Game::Th12), Tool::new(Kind::Anm, Game::Th06),
        Tool::new(Kind::Ecl, Game::Th06), Tool::new(Kind::Ecl, Game::Th07), Tool::new(Kind::Ecl, Game::Th08),
        Tool::new(Kind::Msg, Game::Th06), Tool::new(Kind::Msg, Game::Th08), Tool::new(Kind::Msg, Game::Th12),
        Tool::new(Kind::Std, Game::Th08), Tool::new(Kind::Std, Game::Th12),
        // further games of each tool (other header / instruction layouts and built-in tables)
        Tool::new(Kind::Ecl, Game::Th09), Tool::new(Kind::Ecl, Game::Th095), Tool::new(Kind::Anm, Game::Th07), Tool::new(Kind::Anm, Game::Th17),
        Tool::new(Kind::Msg, Game::Th09), Tool::new(Kind::Msg, Game::Th17), Tool::new(Kind::Std, Game::Th06), Tool::new(Kind::Std, Game::Th17),
    ]
}

struct GenStats { generated: u64, capped: bool, undefined_consts: u64 }

#[derive(Clone, Debug)]
enum Job {
    Body { tool: Tool, lang: Lang, sk_text: String, len0: Option<usize>, bound: u32 },
    Consts { tool: Tool, depth: u32, n: usize, bound: u32 },
}

impl Job {
    fn tool(&self) -> Tool { match self { Job::Body { tool, .. } | Job::Consts { tool, .. } => *tool } }
    fn bound(&self) -> u32 { match self { Job::Body { bound, .. } | Job::Consts { bound, .. } => *bound } }
    fn gen(&self, ch: &mut Chooser) -> Option<Case> {
        match self {
            Job::Body { tool, lang, sk_text, len0, .. } => { let sk = parse_sk(sk_text); Some(gen_body_case(ch, *tool, *lang, &sk, sk_text, *len0)) },
            Job::Consts { tool, depth, n, .. } => gen_const_case(ch, *tool, *depth, *n),
        }
    }
}

fn jobs(thorough: bool) -> Vec<Job> {
    let mut jobs: Vec<Job> = vec![];
    let b = if thorough { 3 } else { 2 };
    for tool in tools() {
        let main = sub_lang(tool);
        let mut body = |lang: Lang, s: &str, len0: Option<usize>, bound: u32| jobs.push(Job::Body { tool, lang, sk_text: s.to_string(), len0, bound });
        match tool.kind {
            Kind::Anm | Kind::Ecl if main.regs() => {
                for s in SK_REGS { body(main, s, None, b); }
                if thorough { for s in SK_REGS_THOROUGH { body(main, s, None, b); } }
                if main.diff() { for s in SK_DIFF { body(main, s, None, b); } }
                if tool.kind == Kind::Ecl { for s in SK_FLAT { body(Lang::Timeline, s, None, b); } }
            },
            // register-less languages: one more deviation when thorough
            Kind::Anm | Kind::Std => for s in SK_JUMPS { body(main, s, None, if thorough { b + 1 } else { b }); },
            // full product over the first text's length 0..=9 for the two smallest skeletons (all, when thorough)
            Kind::Msg => for (si, s) in SK_FLAT.iter().enumerate() {
                if si == 0 || si == 2 || thorough { for len0 in 0..10 { body(main, s, Some(len0), b); } } else { body(main, s, None, b); }
            },
            _ => {},
        }
        // (d) consts.  The full const space on one format (ANM th12), a smaller bound on the others (const evaluation is format-independent)
        let full = matches!((tool.kind, tool.game), (Kind::Anm, Game::Th12));
        let cb: u32 = if thorough { if full { 3 } else { 2 } } else if full { 2 } else { 1 };
        for n in 1..=3usize {
            let bound = if n == 3 && cb > 1 && !(thorough && full) { cb - 1 } else { cb };
            jobs.push(Job::Consts { tool, depth: 2, n, bound });
        }
    }
    jobs
}

fn src_hash(tool: Tool, src: &str) -> u64 {
    use std::hash::{Hash, Hasher};
    let mut h = std::collections::hash_map::DefaultHasher::new(); // fixed keys: deterministic
    tool.hash(&mut h); src.hash(&mut h);
    h.finish()
}

/// Enumerate all jobs (in parallel); a case is stored as (job index, E-DFS choice sequence) and regenerated by
/// the worker that checks it.  Distinct source texts only; formats interleaved, simplest first.
fn enumerate_cases(jobs: &[Job], thorough: bool) -> (Vec<(usize, Vec<u32>)>, GenStats) {
    let mut stats = GenStats { generated: 0, capped: false, undefined_consts: 0 };
    let cap: u64 = std::env::var("VERIF_C18_CAP").ok().and_then(|s| s.parse().ok()).unwrap_or(if thorough { 1_000_000 } else { 40_000 });
    let per_job = par_map(jobs, None, |_, job| {
        let mut out: Vec<(Vec<u32>, u64)> = vec![];
        let mut seen: BTreeSet<u64> = BTreeSet::new();
        let (mut generated, mut undefined) = (0u64, 0u64);
        let st = explore_dfs(job.bound(), cap, &|ch| job.gen(ch), &mut |choices, c| {
            generated += 1;
            match c { Some(c) => { let h = src_hash(c.tool, &c.src); if seen.insert(h) { out.push((choices.to_vec(), h)); } }, None => undefined += 1 }
        });
        (out, generated, undefined, st.capped)
    });
    let mut seen: BTreeSet<u64> = BTreeSet::new();
    let mut ord: BTreeMap<Tool, usize> = BTreeMap::new();
    let mut keyed: Vec<(usize, Tool, usize, Vec<u32>)> = vec![];
    for (ji, r) in per_job.into_iter().enumerate() {
        let (out, generated, undefined, capped) = r.expect("generation has no deadline");
        stats.generated += generated; stats.undefined_consts += undefined; stats.capped |= capped;
        let tool = jobs[ji].tool();
        for (choices, h) in out {
            if seen.insert(h) { let n = ord.entry(tool).or_insert(0); *n += 1; keyed.push((*n, tool, ji, choices)); }
        }
    }
    keyed.sort_by(|a, b| (a.0, a.1).cmp(&(b.0, b.1)));
    (keyed.into_iter().map(|k| (k.2, k.3)).collect(), stats)
}

fn regenerate(jobs: &[Job], item: &(usize, Vec<u32>)) -> Case {
    let mut ch = Chooser::new(&item.1);
    jobs[item.0].gen(&mut ch).expect("a stored case regenerates")
}

// =============================================================================================
// driver-vs-CLI conformance

fn cli_conformance(case: &Case, n: usize, inproc: &CaseResult) -> Result<(), String> {
    let dir = drive::scratch_dir().join(format!("c18-{n}"));
    std::fs::create_dir_all(&dir).map_err(|e| e.to_string())?;
    let (inp, outp, js) = (dir.join("in.spec"), dir.join("out.bin"), dir.join("out.json"));
    std::fs::write(&inp, &case.src).map_err(|e| e.to_string())?;
    let mut args = case.tool.cli("compile");
    args.extend([inp.display().to_string(), "-o".into(), outp.display().to_string(), "--output-debug-info".into(), js.display().to_string()]);
    let out = drive::run_cli(&args, &[]);
    let r = (|| {
        if !inproc.compiled {
            return if out.status == 0 { Err(format!("CLI compiled a program the in-process driver rejected ({:?})", inproc.discard)) } else { Ok(()) };
        }
        if out.status != 0 { return Err(format!("CLI failed (status {}) on a program the in-process driver compiled: {}", out.status, String::from_utf8_lossy(&out.stderr).lines().next().unwrap_or(""))); }
        let bytes = std::fs::read(&outp).map_err(|e| format!("no CLI output file: {e}"))?;
        if Some(&bytes) != inproc.bytes.as_ref() { return Err("CLI and in-process drivers wrote different binaries".into()); }
        let text = std::fs::read_to_string(&js).map_err(|e| format!("no CLI debug info: {e}"))?;
        let mut v: Value = serde_json::from_str(&text).map_err(|e| format!("CLI debug info is not JSON: {e}"))?;
        let inp_s = inp.display().to_string();
        if let Some(files) = v["source-files"].as_array_mut() { for f in files { if f["name"] == inp_s.as_str() { f["name"] = json!("<input>"); } } }
        if Some(&v) != inproc.dbg.as_ref() { return Err(format!("CLI and in-process debug info differ: cli={} inproc={}", v, inproc.dbg.as_ref().map(|d| d.to_string()).unwrap_or_default())); }
        Ok(())
    })();
    let _ = std::fs::remove_dir_all(&dir);
    r.map_err(|e| format!("{e}; format {}; src: {}", case.tool.name(), case.src))
}

// =============================================================================================
// run / replay

// =============================================================================================
// shadowed consts: one const NAME declared several times (file level, inside several scripts, in a nested block), each
// with its own value.  The debug info must describe every declaration (identified by the span of its name), with the
// value that declaration has.

fn shadow_const_cases() -> Vec<(Tool, String)> {
    let mut v = vec![];
    let anm_entry = ANM_ENTRY.replace('N', "0");
    for perm in 0..6usize {
        let vals = PERMS3[perm].map(|k| [3, 5, 7][k]);
        for file_level in [true, false] { for float in [false, true] {
            let ty = if float { "float" } else { "int" };
            let lit = |x: i32| if float { format!("{x}.5") } else { x.to_string() };
            let top = if file_level { format!("const {ty} NN = {};\n", lit(1)) } else { String::new() };
            v.push((Tool::new(Kind::Ecl, Game::Th07), format!("{top}void sub0() {{ const {ty} NN = {}; ins_0(); }}\nvoid sub1() {{ const {ty} NN = {}; {{ const {ty} NN = {}; ins_0(); }} ins_0(); }}\nscript timeline0 {{ }}\n", lit(vals[0]), lit(vals[1]), lit(vals[2]))));
            v.push((Tool::new(Kind::Anm, Game::Th12), format!("{top}{anm_entry}script scrA {{ const {ty} NN = {}; ins_1(); }}\nscript scrB {{ const {ty} NN = {}; {{ const {ty} NN = {}; ins_1(); }} }}\n", lit(vals[0]), lit(vals[1]), lit(vals[2]))));
            v.push((Tool::new(Kind::Msg, Game::Th06), format!("{top}meta {{ table: {{ 0: {{script: \"scrA\"}}, 1: {{script: \"scrB\"}} }} }}\nscript scrA {{ const {ty} NN = {}; ins_0(); }}\nscript scrB {{ const {ty} NN = {}; {{ const {ty} NN = {}; ins_0(); }} }}\n", lit(vals[0]), lit(vals[1]), lit(vals[2]))));
        }}
    }
    v
}

/// (class, findings as (signature suffix, detail))
fn check_shadow_case(tool: Tool, src: &str) -> (String, Vec<(String, Value)>) {
    let out = drive::compile(tool, src.as_bytes(), &CompileOpts { debug_info: true, ..Default::default() });
    let det = |what: String, dbg: &Value| json!({"family": "shadowed-consts", "tool": tool.name(), "source": src, "what": what, "consts_in_debug_info": dbg});
    if let Some(p) = &out.panic { return ("panic".into(), vec![(format!("shadowed-consts:{}", p.signature()), det(p.text.clone(), &Value::Null))]); }
    let (Some(_), Some(dbg)) = (&out.bytes, &out.debug_info) else { return ("rejected".into(), vec![("shadowed-consts:rejected".into(), det(out.diag.clone(), &Value::Null))]); };
    let dbg: Value = match serde_json::from_str(dbg) { Ok(v) => v, Err(e) => return ("bad-json".into(), vec![("shadowed-consts:bad-json".into(), det(e.to_string(), &Value::Null))]) };
    let empty = vec![];
    let entries: Vec<&Value> = dbg["consts"].as_array().unwrap_or(&empty).iter().filter(|c| c["name"] == "NN").collect();
    let shown = json!(entries);
    // the declarations, in source order: offset of the name and the declared value
    let mut fails = vec![];
    let mut n_decl = 0;
    let mut pos = 0;
    while let Some(i) = src[pos..].find(" NN = ") {
        let start = pos + i + 1;
        let rest = &src[start + 5..];
        let lit: String = rest.chars().take_while(|c| *c != ';').collect();
        n_decl += 1;
        let hit = entries.iter().find(|e| e["name-span"].as_array().map_or(false, |s| s.len() == 3 && s[1].as_u64() == Some(start as u64)));
        match hit {
            None => fails.push((format!("shadowed-consts:declaration-without-entry:{}", tool.name()), det(format!("no debug-info entry for the `NN` declared at byte {start} (= {lit})"), &shown))),
            Some(e) => {
                let ok = if lit.contains('.') { e["value"]["float"].as_f64().map_or(false, |x| (x - lit.parse::<f64>().unwrap_or(f64::NAN)).abs() < 1e-6) } else { e["value"]["int"].as_i64() == lit.parse::<i64>().ok() };
                if !ok { fails.push((format!("shadowed-consts:wrong-value:{}", tool.name()), det(format!("the `NN` declared at byte {start} is {lit}, the debug info says {}", e["value"]), &shown))); }
            },
        }
        pos = start + 5;
    }
    if entries.len() != n_decl { fails.push((format!("shadowed-consts:entry-count:{}", tool.name()), det(format!("{} entries named NN for {n_decl} declarations", entries.len()), &shown))); }
    (if fails.is_empty() { "ok".into() } else { "MISMATCH".into() }, fails)
}

// =============================================================================================
// TH06-TH09 STD: instructions there are always 8 + 12 bytes.  A user signature that encodes fewer (or more) argument bytes
// must either be rejected or, if the writer pads it, be described by the debug info at the offsets it really has.

fn std06_short_cases() -> Vec<(Tool, String, String)> {
    let mut v = vec![];
    for game in [Game::Th06, Game::Th07, Game::Th08, Game::Th09] { for (sig, args) in [("S", "1"), ("Sf", "1, 2.0"), ("", ""), ("SS", "1, 2"), ("SSS", "1, 2, 3"), ("SSSS", "1, 2, 3, 4"), ("s", "1"), ("S__", "1"), ("S_", "1")] {
        let map = format!("!stdmap\n!ins_signatures\n11 {sig}\n");
        for before in [0usize, 1, 2] {
            let mut body = String::new();
            for k in 0..before { body += &format!("    ins_0({k}.0, 0.0, 0.0);\n"); }
            body += &format!("    ins_11({args});\nlabA:\n+5:\n    ins_0(7.0, 0.0, 0.0);\nlabB:\n    ins_11({args});\n    ins_0(8.0, 0.0, 0.0);\n");
            v.push((Tool::new(Kind::Std, game), format!("{STD06_META}script main {{\n{body}}}\n"), map.clone()));
        }
    } }
    v
}

fn check_std06_short(tool: Tool, src: &str, map: &str) -> (String, Vec<(String, Value)>) {
    let out = drive::compile(tool, src.as_bytes(), &CompileOpts { debug_info: true, mapfiles: vec![map], ..Default::default() });
    let det = |what: String| json!({"family": "std06-short-signature", "tool": tool.name(), "source": src, "mapfile": map, "what": what});
    if let Some(p) = &out.panic { return ("panic".into(), vec![(format!("std06-short:{}", p.signature()), det(p.text.clone()))]); }
    let (Some(bytes), Some(dbg)) = (&out.bytes, &out.debug_info) else {
        return if drive::has_error(&out.diag) { ("rejected-with-error".into(), vec![]) } else { ("rejected-silently".into(), vec![("std06-short:rejected-without-error".into(), det(out.diag.clone()))]) };
    };
    let dbg: Value = match serde_json::from_str(dbg) { Ok(v) => v, Err(e) => return ("bad-json".into(), vec![("std06-short:bad-json".into(), det(e.to_string()))]) };
    let w = match m2::walk_std(bytes, tool.game) { Ok(w) => w, Err(e) => return ("unreadable".into(), vec![("std06-short:output-unreadable-by-M2".into(), det(e))]) };
    let Some(first) = w.script.first() else { return ("empty".into(), vec![]) };
    let real: Vec<u64> = w.script.iter().map(|i| (i.offset - first.offset) as u64).collect();
    let real_end = w.script.last().map(|i| (i.offset + i.size - first.offset) as u64).unwrap_or(0);
    let ds = &dbg["exported-scripts"][0];
    let claimed: Vec<u64> = ds["instrs"].as_array().into_iter().flatten().filter_map(|i| i["offset"].as_u64()).collect();
    let mut fails = vec![];
    if claimed != real { fails.push((format!("std06-short:instr-offsets:{}", tool.name()), det(format!("debug info says {:?}, the file has {:?}", claimed, real)))); }
    if ds["end-offset"].as_u64() != Some(real_end) { fails.push((format!("std06-short:end-offset:{}", tool.name()), det(format!("debug info says {}, the script is {} bytes", ds["end-offset"], real_end)))); }
    for l in ds["labels"].as_array().into_iter().flatten() {
        if let Some(o) = l["offset"].as_u64() { if !real.contains(&o) && o != real_end { fails.push((format!("std06-short:label-offset:{}", tool.name()), det(format!("label {} at {o}: not an instruction boundary of {:?}", l["name"], real)))); } }
    }
    (if fails.is_empty() { "accepted-and-consistent".into() } else { "MISMATCH".into() }, fails)
}

pub fn run(tier: &str) -> Report {
    let mut rep = Report::new("C18", tier, "model_checking");
    let thorough = rep.is_thorough();
    let deadline = rep.deadline();
    let corrupt: u32 = std::env::var("VERIF_C18_SELFTEST_CORRUPT").ok().and_then(|v| v.parse().ok()).unwrap_or(0);
    let jobs = jobs(thorough);
    let (items, stats) = enumerate_cases(&jobs, thorough);
    rep.transitions = stats.generated;
    rep.states = items.len() as u64;
    if stats.capped { rep.cap_hit = Some("generator cap reached for at least one skeleton".into()); }
    if stats.undefined_consts > 0 { rep.discarded.insert("generator:const-set-undefined-by-M6(division by zero)".into(), stats.undefined_consts); }
    if std::env::var("VERIF_C18_DUMP").is_ok() {
        for it in items.iter().step_by((items.len() / 40).max(1)) { let c = regenerate(&jobs, it); println!("---- {} ----\n{}", c.family, c.src); }
    }
    if std::env::var("VERIF_C18_COUNT").is_ok() {
        let mut m: BTreeMap<String, u64> = BTreeMap::new();
        for it in &items { let j = &jobs[it.0]; *m.entry(format!("{} {}", j.tool().name(), if matches!(j, Job::Body { .. }) { "body" } else { "consts" })).or_insert(0) += 1; }
        println!("{:#?} total {} gen-time {:?}", m, items.len(), rep.start.elapsed());
        std::process::exit(0);
    }
    // leave time for the report: the checking phase stops 150 s before the tier's wall cap when thorough
    let check_deadline = if thorough { deadline.checked_sub(std::time::Duration::from_secs(150)).unwrap_or(deadline) } else { deadline };
    // the first 32 cases of every format also go through the real CLI
    let mut per_fmt_seen: BTreeMap<Tool, usize> = BTreeMap::new();
    let cli_set: BTreeSet<usize> = items.iter().enumerate().filter(|(_, it)| { let n = per_fmt_seen.entry(jobs[it.0].tool()).or_insert(0); *n += 1; *n <= 32 }).map(|(i, _)| i).collect();
    let results = par_map(&items, Some(check_deadline), |i, it| {
        let c = regenerate(&jobs, it);
        let r = check_case(&c, corrupt);
        let cli = if cli_set.contains(&i) { Some(cli_conformance(&c, i, &r)) } else { None };
        let keep = !r.findings.is_empty() || !r.machinery.is_empty() || r.discard.is_some() || i % 997 == 0 || i < 40;
        let (tool, srclen) = (c.tool, c.src.len());
        (CaseResult { dbg: None, bytes: None, ..r }, cli, if keep { Some(c) } else { None }, tool, srclen)
    });
    let n_items = items.len();
    let mut cli_ok = 0u64;

    let mut best: BTreeMap<String, (usize, Value)> = BTreeMap::new();
    let mut counts: BTreeMap<String, u64> = BTreeMap::new();
    let mut per_format: BTreeMap<String, (u64, u64, u64)> = BTreeMap::new();
    let mut n_machinery = 0u64;
    let mut not_run = 0u64;
    let mut discard_samples: Vec<Value> = vec![];
    let mut discard_seen: BTreeSet<String> = BTreeSet::new();
    for (i, r) in results.into_iter().enumerate() {
        let Some((r, cli, kept, tool, srclen)) = r else { not_run += 1; continue; };
        rep.evaluations += 1;
        if let Some(cli) = cli {
            rep.evaluations += 1;
            match cli { Ok(()) => cli_ok += 1, Err(e) => if rep.machinery_errors.len() < 10 { rep.machinery_errors.push(format!("driver-vs-CLI: {e}")); } }
        }
        let fmt = tool.name();
        let pf = per_format.entry(fmt.clone()).or_insert((0, 0, 0));
        pf.0 += 1;
        for m in &r.machinery { n_machinery += 1; if rep.machinery_errors.len() < 10 { rep.machinery_errors.push(m.clone()); } }
        if let Some(d) = &r.discard {
            rep.discard(&format!("{fmt}:{d}")); rep.outcome(&format!("{fmt}:not-compilable"));
            if let Some(c) = &kept { if discard_samples.len() < 6 && discard_seen.insert(format!("{fmt}:{d}")) { discard_samples.push(json!({"discarded_as": d, "format": fmt, "src": c.src})); } }
            continue;
        }
        pf.1 += 1; pf.2 += r.facts;
        rep.traces_validated += r.facts;
        if r.nontrivial { rep.nontrivial += 1; }
        let feats = if r.features.is_empty() { "plain".to_string() } else { r.features.iter().copied().collect::<Vec<_>>().join("+") };
        rep.outcome(&format!("{fmt}:{}:{feats}", if r.findings.is_empty() { "agree" } else { "VIOLATION" }));
        if let Some(c) = &kept { if i % 997 == 0 || (rep.samples.len() < 3 && r.nontrivial) { rep.sample(json!({"family": c.family, "src": c.src, "facts_compared": r.facts})); } }
        for f in &r.findings {
            let sig = format!("C18:{fmt}:{}:{}", f.kind, f.class);
            *counts.entry(sig.clone()).or_insert(0) += 1;
            let better = best.get(&sig).map_or(true, |b| srclen < b.0);
            if better {
                let c = kept.as_ref().expect("cases with findings are kept");
                let mut d = case_to_json(c);
                d["finding"] = json!({"kind": f.kind, "class": f.class, "info": f.detail});
                best.insert(sig, (srclen, d));
            }
        }
    }
    // shadowed consts
    {
        let sc = shadow_const_cases();
        let res = par_map(&sc, Some(deadline), |_, (tool, src)| check_shadow_case(*tool, src));
        for (k, r) in res.into_iter().enumerate() {
            let Some((class, fails)) = r else { continue; };
            rep.evaluations += 1; rep.states += 1; rep.transitions += 1; rep.traces_validated += 4; rep.nontrivial += 1;
            rep.outcome(&format!("shadowed-consts:{class}"));
            for (sig, d) in fails { rep.fail(format!("C18:{sig}"), d); }
            if k == 0 { rep.sample(json!({"family": "shadowed-consts", "source": sc[0].1})); }
        }
        rep.extra.insert("shadowed_const_cases".into(), json!(sc.len()));
    }
    // TH06-TH09 STD with signatures that do not encode 12 bytes
    {
        let sc = std06_short_cases();
        let res = par_map(&sc, Some(deadline), |_, (tool, src, map)| check_std06_short(*tool, src, map));
        for r in res.into_iter() {
            let Some((class, fails)) = r else { continue; };
            rep.evaluations += 1; rep.states += 1; rep.transitions += 1; rep.traces_validated += 1; rep.nontrivial += 1;
            rep.outcome(&format!("std06-short:{class}"));
            for (sig, d) in fails { rep.fail(format!("C18:{sig}"), d); }
        }
        rep.extra.insert("std06_short_signature_cases".into(), json!(sc.len()));
    }
    rep.extra.insert("cli_conformance_cases_identical".into(), json!(cli_ok));
    rep.extra.insert("cli_conformance_cases".into(), json!(cli_set.len()));
    if !discard_samples.is_empty() { rep.extra.insert("discard_samples".into(), json!(discard_samples)); }
    if not_run > 0 { rep.cap_hit = Some(format!("wall cap: {not_run} of {n_items} cases not run")); }
    if n_machinery > 10 { rep.machinery_errors.push(format!("... {} machinery errors in total", n_machinery)); }
    for (sig, (_, d)) in best { rep.fail(sig, d); }
    rep.extra.insert("failure_counts".into(), json!(counts));
    rep.extra.insert("per_format(cases,compiled,facts)".into(), json!(per_format.iter().map(|(k, v)| (k.clone(), json!([v.0, v.1, v.2]))).collect::<BTreeMap<_, _>>()));
    rep.extra.insert("selftest_corrupt".into(), json!(corrupt));
    rep.exhaustive = true;
    rep.bound_completed = format!(
        "formats: ANM th12/th06, ECL th06/th07/th08 (subs + timelines), MSG th06/th08/th12, STD th08/th12; per format every skeleton of the fixed lists ({} register/jump skeletons{}, {} difficulty-switch, {} jump-only, {} straight-line) x file layouts (1-3 scripts, 2 ANM entries, ECL timelines, dense/repeated/sparse+default MSG tables) x sub parameter lists (0,1,2,4; with 4, the leading int or the leading int and float also unnamed) x E-DFS with <= {} deviations over slot contents before/between/after all statements of every block (label | 2 labels | +N: | N: cost 1; label,+N: | +N:,label | label,N:,label | 32-bit wrapping +N: cost 2), statement variants (blob sizes, text lengths, furigana-style texts, blob instead of text, int/float locals, expression shapes, difficulty-switch shapes); MSG: full product over first-text length 0..9 for {} skeletons; consts: 1-3 consts x every declaration order (full product), int/float, expression depth 2 over {} int / {} float operators, references and casts, file-level or script-level, <= {} deviations on ANM th12 (<= {} elsewhere; one less for 3 consts unless thorough ANM th12); register-less ANM th06 / STD bodies get one more deviation when thorough",
        SK_REGS.len(), if thorough { format!(" + {} larger", SK_REGS_THOROUGH.len()) } else { String::new() }, SK_DIFF.len(), SK_JUMPS.len(), SK_FLAT.len(),
        if thorough { 3 } else { 2 }, if thorough { SK_FLAT.len() } else { 2 }, C_IOPS.len() + 2, C_FOPS.len() + 1, if thorough { 3 } else { 2 }, if thorough { 2 } else { 1 });
    rep.rule = "instruction sizes in some script of the written file are not all equal, or >= 1 local / label / const is present".into();
    rep.assumptions = vec![
        "offsets in the debug info are relative to the script's first instruction (the property's 'in the output script'; the schema says 'Byte offset into script')".into(),
        "end-offset = bytes occupied by the script's instructions, EXCLUDING the format's terminal instruction (schema: 'from the first instruction to the position after the last instruction'); M2 confirms the terminal starts exactly there".into(),
        "an instruction replicated per difficulty is reported once per emitted copy (instrs has one entry per instruction in the file)".into(),
        "a label's offset must be the start of the first instruction of the statement that follows it in the source (or the end offset if none follows); when the following construct has no uniquely recognisable first instruction only 'instruction boundary' and ordering are required".into(),
        "a label's time is compared with the stored time of the instruction at its offset only if no time label separates them and the time fits the layout's time field".into(),
        "the register of a local is read from the first argument dword of the unique instruction whose second argument dword is the local's sentinel; ids are stored as ints, except float locals in ANM and in ECL th07/th08 (stored as the float of the id)".into(),
        "M2 walkers, M3 (i64 sum truncated to 32 bits), M6 = tl::m1_binop/m1_unop; script/sub/sprite name consts = position in file order (M9)".into(),
        "compiler-generated labels (@loop#..) and temporaries (tempN) in the document are only required to sit on instruction boundaries; their registers are not checked".into(),
    ];
    rep.explanation = "every enumerated program is compiled by the real pipeline with debug info; the JSON is compared fact by fact with the written binary as parsed by M2 and with the generator's models; a bounded prefix per format is also compiled by the real CLI with --output-debug-info and must give the identical binary and JSON".into();
    rep
}

pub fn replay(detail: &Value) -> i32 {
    if detail["family"] == "std06-short-signature" {
        let Some((tool, src, map)) = std06_short_cases().into_iter().find(|(t, s, m)| t.name() == detail["tool"].as_str().unwrap_or("") && s == detail["source"].as_str().unwrap_or("") && m == detail["mapfile"].as_str().unwrap_or("")) else { println!("unknown case"); return 2; };
        let (class, fails) = check_std06_short(tool, &src, &map);
        println!("class: {class}");
        for (sig, d) in &fails { println!("FAIL C18:{sig}\n  {}", d["what"]); }
        return if fails.is_empty() { 0 } else { 1 };
    }
    if detail["family"] == "shadowed-consts" {
        let Some((tool, src)) = shadow_const_cases().into_iter().find(|(t, s)| t.name() == detail["tool"].as_str().unwrap_or("") && s == detail["source"].as_str().unwrap_or("")) else { println!("unknown case"); return 2; };
        let (class, fails) = check_shadow_case(tool, &src);
        println!("class: {class}");
        for (sig, d) in &fails { println!("FAIL C18:{sig}\n  {}", d["what"]); }
        return if fails.is_empty() { 0 } else { 1 };
    }
    let Some(case) = case_from_json(detail) else { println!("cannot parse the stored case"); return 2; };
    let corrupt: u32 = std::env::var("VERIF_C18_SELFTEST_CORRUPT").ok().and_then(|v| v.parse().ok()).unwrap_or(0);
    println!("format {}\n---- source ----\n{}----------------", case.tool.name(), case.src);
    let r = check_case(&case, corrupt);
    if let Some(d) = &r.discard { println!("not compilable now: {d}"); return 0; }
    for m in &r.machinery { println!("MACHINERY: {m}"); }
    if let Some(d) = &r.dbg { for s in d["exported-scripts"].as_array().into_iter().flatten() { println!("debug info: {}", dbg_script_fragment(s)); } }
    println!("facts compared: {}", r.facts);
    let want = detail["finding"]["kind"].as_str().unwrap_or("");
    let mut still = false;
    for f in &r.findings {
        println!("FINDING {}:{}: {}", f.kind, f.class, f.detail["message"].as_str().unwrap_or(""));
        if let Some(m2f) = f.detail.get("facts") { println!("   m2: {}", m2f["m2"]); }
        if f.kind == want || want.is_empty() { still = true; }
    }
    if r.findings.is_empty() { println!("debug info agrees with the written file"); }
    if !r.machinery.is_empty() && !still { return 2; }
    if still { 1 } else { 0 }
}
