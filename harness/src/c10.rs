//! C10: names resolve by lexical scope (M5 scope model vs `resolve_names`), and consistently
//! renaming declared names never changes the compiled output.

use std::collections::{BTreeMap, BTreeSet};
use serde_json::json;

use crate::common::*;
use crate::tl::{self, *};

#[derive(Debug, Clone)]
enum Node {
    Local { name: usize, init: Option<usize> },      // int <name> [= <use of name>];
    Const { name: usize, init: Option<usize> },      // const int <name> = <use> | literal;
    Use(usize),                                      // mS(<name>);
    Block(Vec<Node>),
    Loop(Vec<Node>),
    If(Vec<Node>),
    Func { param: Option<usize>, body: Vec<Node> },  // void fK(int <param>) { ... }
}

const NAMES: [&str; 3] = ["a", "b", "A"];   // "A" is also a register alias (int register 1000)

fn gen_nodes(ch: &mut Chooser, budget: &mut i32, depth: u32, allow_func: bool) -> Vec<Node> {
    let mut v = vec![];
    let n = 1 + ch.pick(3);
    for _ in 0..n {
        if *budget <= 0 { break; }
        *budget -= 1;
        let mut kinds = vec!["use", "local", "local-init", "const", "const-init"];
        if depth > 0 { kinds.extend(["block", "if", "loop"]); if allow_func { kinds.push("func"); kinds.push("func-param"); } }
        let k = kinds[ch.pick(kinds.len())];
        v.push(match k {
            "use" => Node::Use(ch.pick(NAMES.len())),
            "local" => Node::Local { name: ch.pick(NAMES.len()), init: None },
            "local-init" => Node::Local { name: ch.pick(NAMES.len()), init: Some(ch.pick(NAMES.len())) },
            "const" => Node::Const { name: ch.pick(NAMES.len()), init: None },
            "const-init" => Node::Const { name: ch.pick(NAMES.len()), init: Some(ch.pick(NAMES.len())) },
            "block" => Node::Block(gen_nodes(ch, budget, depth - 1, allow_func)),
            "if" => Node::If(gen_nodes(ch, budget, depth - 1, allow_func)),
            "loop" => Node::Loop(gen_nodes(ch, budget, depth - 1, allow_func)),
            "func" => Node::Func { param: None, body: gen_nodes(ch, budget, depth - 1, allow_func) },
            "func-param" => Node::Func { param: Some(ch.pick(NAMES.len())), body: gen_nodes(ch, budget, depth - 1, allow_func) },
            _ => unreachable!(),
        });
    }
    v
}

// ---------------------------------------------------------------------------------------------
// M5: the scope model.  Every identifier occurrence (declaration or use) gets an index in source
// order; the model predicts for each use the occurrence index of the declaration it binds to.

#[derive(Debug, Clone, Copy, PartialEq)]
enum DeclKind { Local, Const, Param, Alias }

#[derive(Debug, Clone, PartialEq)]
enum Binding { Decl(usize), Alias, Error(&'static str) }

#[derive(Default)]
struct Model {
    /// for each occurrence in source order: (name, is_decl, binding)
    occ: Vec<(usize, bool, Binding)>,
    errors: Vec<&'static str>,
    unspecified: bool,
    has_shadowing: bool,
}

struct Scope {
    /// items (consts) of this block: name -> decl occurrence (visible in the whole block)
    consts: BTreeMap<usize, usize>,
    /// locals/params declared so far in this block: name -> decl occurrence
    locals: BTreeMap<usize, (usize, DeclKind)>,
    /// true if this scope is the body of a function/const (a barrier for locals of outer scopes)
    barrier: bool,
}

struct Renderer { out: String, occ_counter: usize, rename: Option<Vec<String>> /* per occurrence replacement text */ , func_counter: usize, marker: usize }

fn lookup(scopes: &[Scope], name: usize) -> Binding {
    // innermost visible declaration; locals across a barrier are an error
    let mut crossed_barrier = false;
    for s in scopes.iter().rev() {
        let l = s.locals.get(&name);
        let c = s.consts.get(&name);
        match (l, c) {
            (Some(&(occ, _)), None) => { return if crossed_barrier { Binding::Error("local-through-barrier") } else { Binding::Decl(occ) }; },
            (None, Some(&occ)) => return Binding::Decl(occ),
            (Some(_), Some(_)) => return Binding::Error("unspecified"),
            (None, None) => {},
        }
        if s.barrier { crossed_barrier = true; }
    }
    if NAMES[name] == "A" { Binding::Alias } else { Binding::Error("unknown") }
}

fn collect_consts(nodes: &[Node], first_occ: usize, m: &mut Model) -> BTreeMap<usize, usize> {
    // pre-pass: const items of this block (occurrence indices need the in-order numbering, so simulate it)
    let mut occ = first_occ;
    let mut consts = BTreeMap::new();
    fn count(nodes: &[Node]) -> usize {
        nodes.iter().map(|n| match n {
            Node::Local { init, .. } | Node::Const { init, .. } => 1 + init.is_some() as usize,
            Node::Use(_) => 1,
            Node::Block(b) | Node::Loop(b) | Node::If(b) => count(b),
            Node::Func { param, body } => param.is_some() as usize + count(body),
        }).sum()
    }
    for n in nodes {
        match n {
            Node::Const { name, init } => {
                if consts.insert(*name, occ).is_some() { m.errors.push("redefinition"); }
                occ += 1 + init.is_some() as usize;
            },
            other => occ += count(std::slice::from_ref(other)),
        }
    }
    consts
}

fn walk(nodes: &[Node], scopes: &mut Vec<Scope>, m: &mut Model, r: &mut Renderer) {
    let consts = collect_consts(nodes, m.occ.len(), m);
    let barrier = scopes.last().map(|s| s.barrier && s.consts.is_empty() && s.locals.is_empty()).unwrap_or(false);
    let _ = barrier;
    scopes.last_mut().unwrap().consts = consts;
    for n in nodes {
        match n {
            Node::Use(name) => {
                let b = lookup(scopes, *name);
                if let Binding::Error(e) = &b { if *e == "unspecified" { m.unspecified = true; } else { m.errors.push(e); } }
                let text = r.ident(*name, m.occ.len());
                m.occ.push((*name, false, b));
                r.marker += 1;
                r.out.push_str(&format!("mS({text}); "));
            },
            Node::Local { name, init } => {
                // declaration occurrence comes first in the text, but the initialiser is resolved before the name is visible
                let decl_occ = m.occ.len();
                let decl_text = r.ident(*name, decl_occ);
                m.occ.push((*name, true, Binding::Decl(decl_occ)));
                let mut init_text = String::new();
                if let Some(u) = init {
                    let b = lookup(scopes, *u);
                    if let Binding::Error(e) = &b { if *e == "unspecified" { m.unspecified = true; } else { m.errors.push(e); } }
                    init_text = format!(" = {}", r.ident(*u, m.occ.len()));
                    m.occ.push((*u, false, b));
                }
                let top = scopes.last_mut().unwrap();
                if top.locals.contains_key(name) { m.errors.push("redefinition"); }
                if top.consts.contains_key(name) { m.unspecified = true; }
                if scopes.iter().any(|s| s.locals.contains_key(name) || s.consts.contains_key(name)) || NAMES[*name] == "A" { m.has_shadowing = true; }
                scopes.last_mut().unwrap().locals.insert(*name, (decl_occ, DeclKind::Local));
                r.out.push_str(&format!("int {decl_text}{init_text}; "));
            },
            Node::Const { name, init } => {
                let decl_occ = m.occ.len();
                let decl_text = r.ident(*name, decl_occ);
                m.occ.push((*name, true, Binding::Decl(decl_occ)));
                if scopes.last().unwrap().locals.contains_key(name) { m.unspecified = true; }
                if scopes[..scopes.len() - 1].iter().any(|s| s.locals.contains_key(name) || s.consts.contains_key(name)) || NAMES[*name] == "A" { m.has_shadowing = true; }
                let init_text = match init {
                    None => "7".to_string(),
                    Some(u) => {
                        // a const initialiser is its own barrier: it may use consts (anywhere in enclosing blocks) but not locals
                        scopes.push(Scope { consts: BTreeMap::new(), locals: BTreeMap::new(), barrier: true });
                        let mut b = lookup(scopes, *u);
                        scopes.pop();
                        if b == Binding::Decl(decl_occ) { b = Binding::Error("unspecified"); } // const X = X: circular, out of scope
                        if b == Binding::Alias { b = Binding::Error("unspecified"); }          // const X = REGISTER: a type/const error, not a resolution question
                        if let Binding::Error(e) = &b { if *e == "unspecified" { m.unspecified = true; } else { m.errors.push(if *e == "local-through-barrier" { "local-in-const" } else { e }); } }
                        let t = r.ident(*u, m.occ.len());
                        m.occ.push((*u, false, b));
                        t
                    },
                };
                r.out.push_str(&format!("const int {decl_text} = {init_text}; "));
            },
            Node::Block(b) | Node::Loop(b) | Node::If(b) => {
                r.out.push_str(match n { Node::Block(_) => "{ ", Node::Loop(_) => "loop { ", _ => "if (B == 0) { " });
                scopes.push(Scope { consts: BTreeMap::new(), locals: BTreeMap::new(), barrier: false });
                walk(b, scopes, m, r);
                scopes.pop();
                if matches!(n, Node::Loop(_)) { r.out.push_str("break; "); }
                r.out.push_str("} ");
            },
            Node::Func { param, body } => {
                r.func_counter += 1;
                let fname = format!("fn{}", r.func_counter);
                // two scopes: the parameter list (a barrier for the locals outside), and inside it the body block, whose
                // locals and items are inner declarations that shadow a parameter of the same name
                scopes.push(Scope { consts: BTreeMap::new(), locals: BTreeMap::new(), barrier: true });
                let ptext = match param {
                    Some(p) => {
                        let occ = m.occ.len();
                        let t = r.ident(*p, occ);
                        m.occ.push((*p, true, Binding::Decl(occ)));
                        scopes.last_mut().unwrap().locals.insert(*p, (occ, DeclKind::Param));
                        format!("int {t}")
                    },
                    None => String::new(),
                };
                r.out.push_str(&format!("void {fname}({ptext}) {{ "));
                scopes.push(Scope { consts: BTreeMap::new(), locals: BTreeMap::new(), barrier: false });
                walk(body, scopes, m, r);
                scopes.pop();
                scopes.pop();
                r.out.push_str("} ");
            },
        }
    }
}

impl Renderer {
    fn ident(&mut self, name: usize, occ: usize) -> String {
        match &self.rename { Some(map) => map[occ].clone(), None => NAMES[name].to_string() }
    }
}

fn model_and_render(nodes: &[Node], rename: Option<Vec<String>>) -> (Model, String) {
    let mut m = Model::default();
    let mut r = Renderer { out: String::from("{ "), occ_counter: 0, rename, func_counter: 0, marker: 0 };
    let mut scopes = vec![Scope { consts: BTreeMap::new(), locals: BTreeMap::new(), barrier: false }];
    walk(nodes, &mut scopes, &mut m, &mut r);
    r.out.push_str("}");
    let _ = r.occ_counter;
    (m, r.out)
}

/// Partition of occurrences induced by a labelling (occurrences with equal labels are in one class)
fn partition<T: Ord + Clone>(labels: &[T]) -> Vec<usize> {
    let mut first: BTreeMap<T, usize> = BTreeMap::new();
    labels.iter().enumerate().map(|(i, l)| *first.entry(l.clone()).or_insert(i)).collect()
}

pub struct Out { pub class: String, pub failures: Vec<Failure> }

fn check(mapfile: &str, nodes: &[Node], choices: &[u32]) -> (Out, bool, bool) {
    let (m, body) = model_and_render(nodes, None);
    let mut out = Out { class: String::new(), failures: vec![] };
    let detail = |extra: serde_json::Value| json!({"body": body, "choices": choices, "model_errors": m.errors, "info": extra});
    let model_ok = m.errors.is_empty();
    let r = catch(|| with_truth(mapfile, |truth| {
        let mut block = match truth.parse::<truth::ast::Block>("<input>", body.as_ref()) { Ok(b) => b.value, Err(e) => { e.ignore(); return Err(format!("parse: {}", truth.get_captured_diagnostics().unwrap_or_default())); } };
        let ctx = truth.ctx();
        if let Err(e) = truth::passes::resolution::assign_languages(&mut block, truth::LanguageKey::Anm, ctx) { e.ignore(); return Err("assign_languages".into()); }
        let res = truth::passes::resolution::resolve_names(&block, ctx);
        let diag = truth.get_captured_diagnostics().unwrap_or_default();
        match res {
            Err(e) => { e.ignore(); Ok((false, diag, String::new())) },
            Ok(()) => {
                let ctx = truth.ctx();
                truth::passes::debug::make_idents_unique::run(&mut block, &ctx.resolutions).map_err(|_| "make_idents_unique".to_string())?;
                Ok((true, diag, truth::fmt::stringify(&block)))
            },
        }
    }));
    match r {
        Err(p) => { out.class = "panic".into(); out.failures.push(Failure { signature: format!("C10:{}", p.signature()), detail: detail(json!({"panic": p.text})) }); },
        Ok(Err(e)) => { out.class = format!("machinery:{}", e.split(':').next().unwrap_or("")); out.failures.push(Failure { signature: format!("C10:generated-program-unparsable:{}", body), detail: detail(json!({"error": e})) }); },
        Ok(Ok((accepted, diag, uniq_text))) => {
            if m.unspecified {
                out.class = format!("unspecified/{}", if accepted { "accepted" } else { "rejected" });
            } else {
                out.class = format!("{}/{}", if model_ok { "model-ok" } else { "model-error" }, if accepted { "accepted" } else { "rejected" });
                if model_ok && !accepted { out.failures.push(Failure { signature: format!("C10:rejects-resolvable:{body}"), detail: detail(json!({"diag": diag})) }); }
                if !model_ok && accepted { out.failures.push(Failure { signature: format!("C10:accepts-unresolvable:{body}"), detail: detail(json!({"uniq": uniq_text})) }); }
                if !accepted && !crate::drive::has_error(&diag) { out.failures.push(Failure { signature: format!("C10:rejected-without-error:{body}"), detail: detail(json!({"diag": diag})) }); }
                if model_ok && accepted {
                    // compare def-equivalence classes occurrence by occurrence
                    let mut got_labels = vec![];
                    // scan identifiers `<name>_<n>` for our names in the uniquified text, in order
                    let bytes = uniq_text.as_bytes();
                    let mut i = 0;
                    while i < bytes.len() {
                        if bytes[i].is_ascii_alphabetic() || bytes[i] == b'_' {
                            let st = i;
                            while i < bytes.len() && (bytes[i].is_ascii_alphanumeric() || bytes[i] == b'_') { i += 1; }
                            let tok = &uniq_text[st..i];
                            if let Some(pos) = tok.rfind('_') {
                                let (base, num) = (&tok[..pos], &tok[pos + 1..]);
                                if NAMES.contains(&base) && !num.is_empty() && num.chars().all(|c| c.is_ascii_digit()) { got_labels.push(tok.to_string()); }
                            }
                        } else { i += 1; }
                    }
                    let model_labels: Vec<String> = m.occ.iter().map(|(name, _, b)| match b { Binding::Decl(d) => format!("{}#{}", NAMES[*name], d), Binding::Alias => format!("{}#alias", NAMES[*name]), Binding::Error(_) => "err".into() }).collect();
                    if got_labels.len() != model_labels.len() || partition(&got_labels) != partition(&model_labels) {
                        out.failures.push(Failure { signature: format!("C10:wrong-binding:{body}"), detail: detail(json!({"model": model_labels, "truth": got_labels, "uniq": uniq_text})) });
                    }
                }
            }
        },
    }
    (out, m.has_shadowing, model_ok && !m.unspecified)
}

/// Renaming clause: programs without functions that the model resolves; compile P and rho(P)
fn check_rename(mapfile: &str, nodes: &[Node], choices: &[u32]) -> Option<Failure> {
    let (m, body) = model_and_render(nodes, None);
    if !m.errors.is_empty() || m.unspecified { return None; }
    // rho: every declaration occurrence d -> fresh name "v<d>"; uses follow their binding; alias uses keep "A"
    let rename: Vec<String> = m.occ.iter().map(|(name, _, b)| match b { Binding::Decl(d) => format!("v{d}"), _ => NAMES[*name].to_string() }).collect();
    let (_, body2) = model_and_render(nodes, Some(rename));
    let hooks = make_language(&Pool { ints: 3, floats: 0 }, false);   // pool B C D minus mentioned
    let compile = |text: &str| -> Result<Vec<String>, String> {
        match catch(|| with_truth(mapfile, |truth| {
            let mut block = front_end(truth, text, true).map_err(|(s, d)| format!("{s}: {d}"))?;
            tl::const_simplify(truth, &mut block)?;
            let des = desugar(truth, &block)?;
            let (instrs, _) = tl::lower(truth, &hooks, &des.0, false)?;
            Ok::<_, String>(fmt_instrs(&instrs))
        })) { Ok(r) => r, Err(p) => Err(p.signature()) }
    };
    let a = compile(&body); let b = compile(&body2);
    // both may legitimately fail (e.g. out of registers, uninitialised use is fine) but must fail alike
    let same = match (&a, &b) { (Ok(x), Ok(y)) => x == y, (Err(_), Err(_)) => true, _ => false };
    if same { None } else {
        Some(Failure { signature: format!("C10:renaming-changes-output:{body}"), detail: json!({"body": body, "renamed": body2, "choices": choices, "original": format!("{:?}", a), "renamed_result": format!("{:?}", b)}) })
    }
}


// ---------------------------------------------------------------------------------------------
// family (b): "register and instruction aliases only in their own language".  Old-format ECL files have two
// languages in one source (subs: ECL, `script`s: timeline).  Full product over, for each of two spellings, the
// set of languages whose mapfile section defines it (none / ECL / timeline / both, with different opcodes), the
// order of the mapfile sections, the spelling used in the sub and in the timeline, and a register alias (ECL
// only) used as an argument at either site.  Oracle: compile succeeds iff every use names an alias of its own
// language, and then the opcodes read back by M2 are the ones its own language maps the spelling to.

#[derive(Debug, Clone)]
struct LangCase { game: &'static str, st: [u8; 2], tl_first: bool, sub_name: usize, tl_name: usize, reg_site: u8 /* 0 none, 1 sub, 2 timeline */,
    /// an item (a const, a nested function) in front of the use inside the sub / the timeline body: 0 none, 1 sub, 2 timeline, 3 both;
    /// items have their own language context, which must not leak into the statements after them
    nested_item: u8 }

const LNAMES: [&str; 2] = ["nX", "nY"];
const ECL_OPS: [u16; 2] = [910, 911];
const TL_OPS: [u16; 2] = [913, 914];

fn lang_case_text(c: &LangCase) -> (String, String) {
    let mut ecl = String::from("!ins_names\n"); let mut tl = String::from("!timeline_ins_names\n");
    for i in 0..2 {
        if c.st[i] & 1 != 0 { ecl.push_str(&format!("{} {}\n", ECL_OPS[i], LNAMES[i])); }
        if c.st[i] & 2 != 0 { tl.push_str(&format!("{} {}\n", TL_OPS[i], LNAMES[i])); }
    }
    ecl.push_str("!ins_signatures\n910 SS\n911 SS\n912 SS\n!gvar_names\n-10001 rAlias\n!gvar_types\n-10001 $\n");
    tl.push_str("!timeline_ins_signatures\n913 SS\n914 SS\n915 SS\n");
    let map = if c.tl_first { format!("!eclmap\n{tl}{ecl}") } else { format!("!eclmap\n{ecl}{tl}") };
    let sub_arg = if c.reg_site == 1 { "rAlias" } else { "1" };
    let tl_arg = if c.reg_site == 2 { "rAlias" } else { "3" };
    let sub_item = if c.nested_item & 1 != 0 { "const int KA = 1; " } else { "" };
    let tl_item = if c.nested_item & 2 != 0 { "const int KB = 2; " } else { "" };
    let src = format!("void sub0() {{ {sub_item}{}({sub_arg}, 2); ins_912(5, 6); }}\nscript timeline0 {{ {tl_item}{}({tl_arg}, 4); ins_915(7, 8); }}\n", LNAMES[c.sub_name], LNAMES[c.tl_name]);
    (map, src)
}

fn check_lang_case(c: &LangCase) -> (String, Option<Failure>) {
    use crate::drive::{self, CompileOpts, Kind, Tool};
    let (map, src) = lang_case_text(c);
    let game = c.game.parse::<truth::Game>().unwrap();
    let tool = Tool::new(Kind::Ecl, game);
    let out = drive::compile(tool, src.as_bytes(), &CompileOpts { mapfiles: vec![&map], ..Default::default() });
    let expect_ok = c.st[c.sub_name] & 1 != 0 && c.st[c.tl_name] & 2 != 0 && c.reg_site != 2;
    let detail = |extra: serde_json::Value| json!({"family": "lang", "game": c.game, "mapfile": map, "source": src, "case": format!("{:?}", c), "expected_to_compile": expect_ok, "diag": out.diag, "info": extra});
    let sig = |what: &str| format!("C10:lang:{what}:{}:st={}{}:{}:sub={}:tl={}:reg={}:items={}", c.game, c.st[0], c.st[1], if c.tl_first { "tl-first" } else { "ecl-first" }, LNAMES[c.sub_name], LNAMES[c.tl_name], c.reg_site, c.nested_item);
    if let Some(p) = &out.panic { return ("lang:panic".into(), Some(Failure { signature: sig(&p.signature()), detail: detail(json!({"panic": p.text})) })); }
    match (&out.bytes, expect_ok) {
        (None, false) => {
            if out.has_error_diag() { ("lang:rejected-as-expected".into(), None) } else { ("lang:rejected-silently".into(), Some(Failure { signature: sig("rejected-without-error"), detail: detail(json!({})) })) }
        },
        (None, true) => ("lang:rejects-own-language-alias".into(), Some(Failure { signature: sig("rejects-own-language-alias"), detail: detail(json!({})) })),
        (Some(_), false) => ("lang:accepts-foreign-alias".into(), Some(Failure { signature: sig("accepts-foreign-language-alias"), detail: detail(json!({})) })),
        (Some(bytes), true) => {
            let w = match crate::m2::walk_ecl(bytes, game) { Ok(w) => w, Err(e) => return ("lang:unreadable".into(), Some(Failure { signature: sig("output-unreadable-by-M2"), detail: detail(json!({"m2": e})) })) };
            let got_sub = w.subs.get(0).and_then(|s| s.get(0)).map(|i| i.opcode);
            let got_tl = w.timelines.get(0).and_then(|s| s.get(0)).map(|i| i.opcode);
            let reg_ok = c.reg_site != 1 || w.subs.get(0).and_then(|s| s.get(0)).map(|i| i.args.len() >= 4 && i32::from_le_bytes([i.args[0], i.args[1], i.args[2], i.args[3]]) == -10001).unwrap_or(false);
            if got_sub == Some(ECL_OPS[c.sub_name]) && got_tl == Some(TL_OPS[c.tl_name]) && reg_ok { ("lang:compiled-with-own-language-ids".into(), None) }
            else { ("lang:wrong-id".into(), Some(Failure { signature: sig("alias-resolved-to-other-language"), detail: detail(json!({"sub_opcode": got_sub, "timeline_opcode": got_tl, "register_argument_ok": reg_ok})) })) }
        },
    }
}

fn lang_cases() -> Vec<LangCase> {
    let mut v = vec![];
    for game in ["th06", "th07", "th08"] { for s0 in 0..4u8 { for s1 in 0..4u8 { for tl_first in [false, true] { for sub_name in 0..2 { for tl_name in 0..2 { for reg_site in 0..3u8 { for nested_item in 0..4u8 {
        v.push(LangCase { game, st: [s0, s1], tl_first, sub_name, tl_name, reg_site, nested_item });
    }}}}}}}}
    v
}

fn has_func(nodes: &[Node]) -> bool { nodes.iter().any(|n| match n { Node::Func { .. } => true, Node::Block(b) | Node::Loop(b) | Node::If(b) => has_func(b), _ => false }) }

// ---------------------------------------------------------------------------------------------
// family (c): names declared at file level in the real formats (ANM sprites and scripts, ECL subs, MSG scripts, consts),
// spelled from a pool that contains every other kind of name that is visible there: a register alias, an instruction
// alias and an enum const from the user mapfile, builtin consts, a name the format generates itself.  Oracle = the
// renaming clause: the same file with that one declared name (and all its uses) replaced by a fresh spelling must compile
// to the same bytes.  A colliding spelling may also be *rejected* with an error (counted, not a violation); what may not
// happen is that both compile and differ, or that only the fresh spelling fails.

pub struct FileNameCase { pub host: &'static str, pub what: &'static str, pub spelling: &'static str, pub use_site: &'static str, pub src_tpl: String, pub map: String }

fn file_name_cases() -> Vec<FileNameCase> {
    let mut v = vec![];
    let anm_map = "!anmmap\n!ins_names\n2000 insal\n2003 takeS\n!ins_signatures\n2000 S\n2001 n\n2002 N\n2003 S\n2004 f\n!gvar_names\n10000 AL\n10004 FAL\n!gvar_types\n10000 $\n10004 %\n!enum(name=\"Foo\")\n7 ec\n";
    let ecl_map = |game: &str| { let (i, f) = if game == "th06" { (-10001, -10005) } else { (10000, 10004) }; format!("!eclmap\n!ins_names\n2000 insal\n2003 takeS\n!ins_signatures\n2000 S\n2003 S\n2004 f\n!gvar_names\n{i} AL\n{f} FAL\n!gvar_types\n{i} $\n{f} %\n!enum(name=\"Foo\")\n7 ec\n") };
    let msg_map = "!msgmap\n!ins_names\n100 insal\n103 takeS\n!ins_signatures\n100 S\n103 S\n!enum(name=\"Foo\")\n7 ec\n";
    let pool: [&'static str; 12] = ["AL", "FAL", "insal", "ec", "INF", "NAN", "PI", "true", "sprite0", "script0", "sub0", "main"];
    let entry = |sprites: &str| format!("entry {{\n    path: \"subdir/file.png\", has_data: false, img_width: 512, img_height: 512, img_format: 3,\n    sprites: {{ {sprites} }},\n}}\n");
    for sp in pool {
        // ANM sprite named @N@ (explicit id 5), used as a typed sprite argument, in a plain int argument, in an expression
        for (site, stmt) in [("n-arg", "ins_2001(@N@);"), ("S-arg", "takeS(@N@);"), ("expr", "$REG[10001] = @N@ + 1;"), ("const", "const int K = @N@ * 2; takeS(K);"), ("unused", "takeS(3);")] {
            v.push(FileNameCase { host: "anm12", what: "sprite", spelling: sp, use_site: site, map: anm_map.into(),
                src_tpl: format!("{}script scr {{ {stmt} }}\n", entry("first: {id: 2, x: 0.0, y: 0.0, w: 1.0, h: 1.0}, @N@: {id: 5, x: 0.0, y: 0.0, w: 2.0, h: 2.0}")) });
        }
        // ANM script named @N@ (second script), used as a typed script argument and in a plain int argument
        for (site, stmt) in [("N-arg", "ins_2002(@N@);"), ("S-arg", "takeS(@N@);"), ("expr", "$REG[10001] = @N@ + 1;"), ("unused", "takeS(3);")] {
            v.push(FileNameCase { host: "anm12", what: "script", spelling: sp, use_site: site, map: anm_map.into(),
                src_tpl: format!("{}script first {{ {stmt} }}\nscript @N@ {{ takeS(1); }}\n", entry("s0: {id: 0, x: 0.0, y: 0.0, w: 1.0, h: 1.0}")) });
        }
        // file-level const named @N@
        for (site, stmt) in [("S-arg", "takeS(@N@);"), ("expr", "$REG[10001] = @N@ + 1;"), ("label-time", "+@N@: takeS(1);")] {
            v.push(FileNameCase { host: "anm12", what: "const", spelling: sp, use_site: site, map: anm_map.into(),
                src_tpl: format!("const int @N@ = 9;\n{}script first {{ {stmt} }}\n", entry("s0: {id: 0, x: 0.0, y: 0.0, w: 1.0, h: 1.0}")) });
        }
        // ECL sub named @N@: called, used as an int (its index), as a timeline argument
        for game in ["th06", "th07"] {
            let host: &'static str = if game == "th06" { "ecl06" } else { "ecl07" };
            let r1 = if game == "th06" { -10002 } else { 10001 };
            for (site, stmt, tl) in [("call", "@N@();", ""), ("S-arg", "takeS(@N@);", ""), ("expr", "$REG[@R@] = @N@ + 1;", ""), ("timeline-arg", "takeS(1);", "ins_0(@N@, 1.0, 2.0, 3.0, 4, 5, 6);"), ("unused", "takeS(3);", "")] {
                let tl = if game == "th07" && !tl.is_empty() { "ins_0(@N@, 1.0, 2.0, 3.0, 4, 5, 6);" } else { tl };
                v.push(FileNameCase { host, what: "sub", spelling: sp, use_site: site, map: ecl_map(game),
                    src_tpl: format!("void first() {{ {} }}\nvoid @N@() {{ takeS(1); }}\nscript timeline0 {{ {tl} }}\n", stmt.replace("@R@", &r1.to_string())) });
            }
        }
        // MSG script named @N@ (referenced from the table)
        v.push(FileNameCase { host: "msg06", what: "msg-script", spelling: sp, use_site: "table", map: msg_map.into(),
            src_tpl: "meta { table: { 0: {script: \"first\"}, 1: {script: \"@N@\"} } }\nscript first { takeS(1); }\nscript @N@ { takeS(2); }\n".into() });
    }
    v
}

fn check_file_name_case(c: &FileNameCase) -> (String, Option<Failure>) {
    use crate::drive::{self, CompileOpts, Kind, Tool};
    let tool = match c.host { "anm12" => Tool::new(Kind::Anm, "th12".parse().unwrap()), "ecl06" => Tool::new(Kind::Ecl, "th06".parse().unwrap()), "ecl07" => Tool::new(Kind::Ecl, "th07".parse().unwrap()), _ => Tool::new(Kind::Msg, "th06".parse().unwrap()) };
    let src_a = c.src_tpl.replace("@N@", c.spelling);
    let src_b = c.src_tpl.replace("@N@", "zzfresh");
    let a = drive::compile(tool, src_a.as_bytes(), &CompileOpts { mapfiles: vec![&c.map], ..Default::default() });
    let b = drive::compile(tool, src_b.as_bytes(), &CompileOpts { mapfiles: vec![&c.map], ..Default::default() });
    let detail = |extra: serde_json::Value| json!({"family": "file-names", "host": c.host, "what": c.what, "spelling": c.spelling, "use_site": c.use_site, "source": src_a, "source_renamed": src_b, "mapfile": c.map, "info": extra});
    let key = format!("{}:{}:{}", c.host, c.what, c.use_site);
    if let Some(p) = a.panic.as_ref().or(b.panic.as_ref()) { return ("file-names:panic".into(), Some(Failure { signature: format!("C10:{}", p.signature()), detail: detail(json!({"panic": p.text})) })); }
    match (&a.bytes, &b.bytes) {
        (Some(x), Some(y)) if x == y => ("file-names:same".into(), None),
        (Some(_), Some(_)) => ("file-names:DIFFERS".into(), Some(Failure { signature: format!("C10:file-names:renaming-changes-output:{key}:{}", c.spelling), detail: detail(json!({"diag": a.diag, "diag_renamed": b.diag})) })),
        (None, Some(_)) => {
            if drive::has_error(&a.diag) { ("file-names:collision-rejected".into(), None) }
            else { ("file-names:rejected-without-error".into(), Some(Failure { signature: format!("C10:file-names:rejected-without-error:{key}"), detail: detail(json!({"diag": a.diag})) })) }
        },
        (Some(_), None) => ("file-names:FRESH-REJECTED".into(), Some(Failure { signature: format!("C10:file-names:fresh-spelling-rejected:{key}"), detail: detail(json!({"diag_renamed": b.diag})) })),
        (None, None) => ("file-names:template-rejected".into(), None),
    }
}

pub fn run(tier: &str) -> Report {
    let mut rep = Report::new("C10", tier, "model_checking");
    let thorough = tier == "thorough";
    let table = Table::new(&TableCfg::FULL);
    let mapfile = table.mapfile_text(REGS);
    let (bound, budget, depth) = if thorough { (7, 8, 3) } else { (5, 6, 2) };
    let mut cases: Vec<(Vec<Node>, Vec<u32>, String)> = vec![];
    let mut seen = BTreeSet::new();
    let stats = explore_dfs(bound, if thorough { 3_000_000 } else { 400_000 }, &|ch| {
        let mut b = budget;
        gen_nodes(ch, &mut b, depth, true)
    }, &mut |choices, nodes| {
        let (_, body) = model_and_render(&nodes, None);
        if seen.insert(body.clone()) { cases.push((nodes, choices.to_vec(), body)); }
    });
    rep.transitions = stats.runs; rep.states = cases.len() as u64;
    if stats.capped { rep.cap_hit = Some(format!("generator cap {}", stats.runs)); }
    let deadline = rep.deadline();
    let results = par_map(&cases, Some(deadline), |_, (nodes, choices, _)| {
        let (o, shadow, resolvable) = check(&mapfile, nodes, choices);
        let rn = if resolvable && !has_func(nodes) { Some(check_rename(&mapfile, nodes, choices)) } else { None };
        (o, shadow, rn)
    });
    for (i, r) in results.into_iter().enumerate() {
        let Some((o, shadow, rn)) = r else { rep.cap_hit = Some("wall cap".into()); continue; };
        rep.evaluations += 1; rep.traces_validated += 1;
        rep.outcome(&o.class);
        if shadow { rep.nontrivial += 1; }
        if i % 7919 == 0 { rep.sample(json!({"body": cases[i].2, "class": o.class})); }
        rep.failures.extend(o.failures);
        if let Some(rn) = rn { rep.evaluations += 2; rep.traces_validated += 1; match rn { None => rep.outcome("rename:same"), Some(f) => { rep.outcome("rename:differs"); rep.failures.push(f); } } }
    }
    // family (b): aliases per language (full product)
    let lcases = lang_cases();
    let lres = par_map(&lcases, Some(deadline), |_, c| check_lang_case(c));
    for (i, r) in lres.into_iter().enumerate() {
        let Some((class, f)) = r else { rep.cap_hit = Some("wall cap in (b)".into()); continue; };
        rep.evaluations += 1; rep.states += 1; rep.transitions += 1; rep.traces_validated += 1;
        if lcases[i].st.iter().any(|&s| s == 3) || lcases[i].reg_site != 0 { rep.nontrivial += 1; }
        rep.outcome(&class);
        if i % 401 == 0 { let (m, s) = lang_case_text(&lcases[i]); rep.sample(json!({"family": "lang", "game": lcases[i].game, "mapfile": m, "source": s, "class": class})); }
        if let Some(f) = f { rep.failures.push(f); }
    }
    // family (c): file-level declared names in the real formats
    let fcases = file_name_cases();
    let fres = par_map(&fcases, Some(deadline), |_, c| check_file_name_case(c));
    let mut template_rejected = vec![];
    for (i, r) in fres.into_iter().enumerate() {
        let Some((class, f)) = r else { rep.cap_hit = Some("wall cap in (c)".into()); continue; };
        rep.evaluations += 2; rep.states += 1; rep.transitions += 1; rep.traces_validated += 1; rep.nontrivial += 1;
        if class == "file-names:template-rejected" { template_rejected.push(format!("{}:{}:{}:{}", fcases[i].host, fcases[i].what, fcases[i].use_site, fcases[i].spelling)); }
        rep.outcome(&class);
        if i % 97 == 0 { rep.sample(json!({"family": "file-names", "host": fcases[i].host, "what": fcases[i].what, "spelling": fcases[i].spelling, "use_site": fcases[i].use_site, "class": class})); }
        if let Some(f) = f { rep.failures.push(f); }
    }
    rep.extra.insert("file_names_cases".into(), json!(fcases.len()));
    rep.extra.insert("file_names_template_rejected".into(), json!(template_rejected));
    let n_lang = lcases.len();
    rep.exhaustive = true;
    rep.bound_completed = format!("(c) file-level names: sprites / scripts / consts (ANM th12), subs (ECL th06, th07), MSG scripts x 12 spellings (register alias, instruction alias, enum const, builtin consts, generated names) x 1-5 use sites, each against its fresh renaming; (b) aliases per language: full product of {n_lang} cases (3 games x per-spelling definition sets {{none, ECL, timeline, both}}^2 x mapfile section order x spelling used in sub x spelling used in timeline x register alias site); (a) deviations<={bound}, <= {budget} nodes, nesting<={depth}; node kinds: use, local (with/without initialiser naming any pool name), const (literal or naming any pool name), block, if, loop, function (with/without parameter); name pool {:?} ('A' is also a register alias)", NAMES);
    rep.rule = "E-DFS over scope trees; distinct = distinct rendered text; non-trivial = some declaration shadows an outer declaration or the register alias".into();
    rep.assumptions = vec!["M5 scope model (harness), written from the documented scoping rules and resolve/tests.rs expectations".into(), "same-block local/const name clashes, circular consts and consts naming a register are generated but only required not to crash".into()];
    rep.explanation = "Ok/Err of resolve_names vs M5; for accepted programs the def-equivalence classes of all identifier occurrences (via passes::debug::make_idents_unique) vs M5's bindings; for function-free resolvable programs, compiled instructions of P and of the injectively renamed program must be identical".into();
    rep
}

pub fn replay(detail: &serde_json::Value) -> i32 {
    let table = Table::new(&TableCfg::FULL);
    let mapfile = table.mapfile_text(REGS);
    if detail["family"].as_str() == Some("file-names") {
        let Some(c) = file_name_cases().into_iter().find(|c| c.host == detail["host"].as_str().unwrap_or("") && c.what == detail["what"].as_str().unwrap_or("") && c.spelling == detail["spelling"].as_str().unwrap_or("") && c.use_site == detail["use_site"].as_str().unwrap_or("")) else { println!("unknown case"); return 2; };
        let (class, f) = check_file_name_case(&c);
        println!("class: {class}");
        if let Some(f) = &f { println!("FAIL {}\n{}", f.signature, serde_json::to_string_pretty(&f.detail).unwrap()); }
        return if f.is_some() { 1 } else { 0 };
    }
    if detail["family"].as_str() == Some("lang") {
        let want = detail["case"].as_str().unwrap_or("");
        for c in lang_cases() { if format!("{:?}", c) == want {
            let (class, f) = check_lang_case(&c);
            println!("class: {class}");
            if let Some(f) = &f { println!("FAIL {}\n{}", f.signature, serde_json::to_string_pretty(&f.detail).unwrap()); }
            return if f.is_some() { 1 } else { 0 };
        }}
        println!("case not in the enumerated set"); return 2;
    }
    let choices: Vec<u32> = detail["choices"].as_array().map(|a| a.iter().map(|v| v.as_u64().unwrap() as u32).collect()).unwrap_or_default();
    let mut bad = 1;
    for (budget, depth) in [(6, 2), (8, 3)] {
        let r = catch(|| { let mut ch = Chooser::new(&choices); let mut b = budget; gen_nodes(&mut ch, &mut b, depth, true) });
        let Ok(nodes) = r else { continue; };
        let (_, body) = model_and_render(&nodes, None);
        if Some(body.as_str()) != detail["body"].as_str() { continue; }
        let (o, _, _) = check(&mapfile, &nodes, &choices);
        println!("class: {}", o.class);
        let mut fails = o.failures;
        if let Some(f) = check_rename(&mapfile, &nodes, &choices) { fails.push(f); }
        for f in &fails { println!("FAIL {}\n{}", f.signature, serde_json::to_string_pretty(&f.detail).unwrap()); }
        bad = if fails.is_empty() { 0 } else { 1 };
        break;
    }
    bad
}
