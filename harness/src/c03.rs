//! C03 — a successful compile never writes a file that differs from what was asked.
//!
//! Bounded exhaustive enumeration: for every format class a small valid base file is described by a
//! *model* (a list of explicitly requested field values); one field deviates at a time (D = 1; pairs
//! of fields, D = 2, in thorough) over a boundary value set derived from the STORED width of that
//! field.  The model is rendered to source text (+ a user mapfile), compiled with the real truth
//! code, and on success (i) re-read with truth's own decompiler and (ii) walked with the independent
//! M2 walkers; every field the source explicitly requested is compared with what is in the file.
//! The expected values come from the generator (it knows what it wrote into the source), never
//! from truth.
#![allow(dead_code)]

use std::collections::{BTreeMap, BTreeSet, HashMap};

use serde_json::{json, Value};
use truth::Game;

use crate::common::{par_map, Report};
use crate::drive::{self, CompileOpts, DecompOpts, Kind, Tool};
use crate::m2::{self, InstrLayout};

// =============================================================================================
// model

#[derive(Debug, Clone, PartialEq, Eq, PartialOrd, Ord, Hash)]
pub struct Dev { pub field: String, pub value: i64 }

#[derive(Debug, Clone, Copy, PartialEq, Eq)]
enum FK {
    /// integer field stored in `bits` bits
    Int,
    /// a field the source accepts but this format has no slot for
    NoSlot,
    /// number of items, realised by generating that many items; header field has `bits` bits (0 = no count field)
    Count,
    /// fixed-size NUL-terminated string buffer of `bits/8` bytes; value = string length in bytes
    FixedStr,
    /// string argument `z(bs=4)` of the given length
    ArgStr,
    /// `@blob` of the given byte length
    Blob,
    /// difficulty mask byte (all 256 values are expressible; control only)
    Diff,
    /// ANM entry layout family: value = 8 * n_entries + bitmask(entry i has an embedded image)
    Layout,
    /// boolean-valued source field
    Bool,
    /// MSG `table_len`
    TableLen,
}

#[derive(Debug, Clone)]
struct FieldDef { name: String, bits: u32, signed: bool, kind: FK }

fn fd(name: &str, bits: u32, signed: bool, kind: FK) -> FieldDef { FieldDef { name: name.to_string(), bits, signed, kind } }

/// per-script-language instruction layout facts (from the layout table in m2.rs)
#[derive(Debug, Clone, Copy)]
struct SCfg {
    pfx: &'static str,
    layout: InstrLayout,
    time_bits: u32,
    op_bits: u32,
    mask_bits: u32,
    has_diff: bool,
    has_arg0: bool,
    /// largest value of the size field, and how many header bytes the size field counts
    size_max: i64,
    size_hdr: i64,
    fixed12: bool,
    timeline: bool,
    op_fill: i64, op_small: i64, op_str: i64, op_blob: i64, op_dev: i64,
}

impl SCfg {
    fn max_args(&self) -> i64 { (self.size_max - self.size_hdr) / 4 * 4 }
}

fn scfg(layout: InstrLayout, pfx: &'static str) -> SCfg {
    use InstrLayout::*;
    let small_ops = matches!(layout, Anm06 | Msg);
    let (op_fill, op_small, op_str, op_blob, op_dev) = if small_ops { (100, 101, 102, 103, 50) } else { (3000, 3001, 3002, 3003, 2000) };
    let (time_bits, op_bits, mask_bits, has_diff, has_arg0, size_max, size_hdr) = match layout {
        Anm06 | Msg => (16, 8, 0, false, false, 255, 0),
        Anm07 => (16, 16, 16, false, false, 65535, 8),
        Std06 => (32, 16, 0, false, false, 12, 0),
        Std10 => (32, 16, 0, false, false, 65535, 8),
        Ecl06 => (32, 16, 0, true, false, 32767, 12),
        Ecl07 => (32, 16, 16, true, false, 32767, 12),
        Timeline06 => (16, 16, 0, false, true, 65535, 8),
        Timeline08 => (32, 16, 0, true, false, 255, 8),
    };
    SCfg { pfx, layout, time_bits, op_bits, mask_bits, has_diff, has_arg0, size_max, size_hdr, fixed12: layout == Std06,
           timeline: matches!(layout, Timeline06 | Timeline08), op_fill, op_small, op_str, op_blob, op_dev }
}

#[derive(Debug, Clone)]
struct Class {
    name: &'static str,
    kind: Kind,
    game: Game,
    fields: Vec<FieldDef>,
    scripts: Vec<SCfg>,
}

fn g(s: &str) -> Game { s.parse::<Game>().expect("game") }

fn script_fields(c: &SCfg, out: &mut Vec<FieldDef>) {
    let p = c.pfx;
    let n = |s: &str| format!("{p}{s}");
    out.push(fd(&n("time"), c.time_bits, true, FK::Int));
    out.push(fd(&n("opcode"), c.op_bits, c.op_bits == 8, FK::Int));
    out.push(fd(&n("opcode_map"), c.op_bits, c.op_bits == 8, FK::Int));
    if c.mask_bits > 0 { out.push(fd(&n("mask"), c.mask_bits, false, FK::Int)); } else { out.push(fd(&n("mask"), 0, false, FK::NoSlot)); }
    if c.has_diff { out.push(fd(&n("diff"), 8, false, FK::Diff)); out.push(fd(&n("diff_nested"), 8, false, FK::Diff)); }
    if c.has_arg0 { out.push(fd(&n("arg0"), 16, true, FK::Int)); }
    out.push(fd(&n("arg_s"), 16, true, FK::Int));
    out.push(fd(&n("arg_u"), 16, false, FK::Int));
    out.push(fd(&n("arg_c"), 8, true, FK::Int));
    out.push(fd(&n("arg_b"), 8, false, FK::Int));
    if !c.fixed12 { out.push(fd(&n("str_len"), 0, false, FK::ArgStr)); }
    out.push(fd(&n("blob_len"), 0, false, FK::Blob));
}

fn classes(thorough: bool) -> Vec<Class> {
    let mut v = vec![];
    // ---- ANM
    for (name, game, always) in [("anm-v0", "th06", true), ("anm-v2", "th07", true), ("anm-v4", "th10", true), ("anm-v7", "th12", true), ("anm-v8", "th17", false)] {
        if !always && !thorough { continue; }
        let game = g(game);
        let old = m2::anm_has_old_header(game);
        let hb = if old { 32 } else { 16 };
        let sc = scfg(m2::anm_instr_layout(game), "");
        let mut f = vec![
            fd("rt_width", hb, false, FK::Int), fd("rt_height", hb, false, FK::Int), fd("rt_format", hb, false, FK::Int),
            fd("img_width", 16, false, FK::Int), fd("img_height", 16, false, FK::Int), fd("img_format", 16, false, FK::Int),
            fd("memory_priority", 32, false, FK::Int),
            fd("sprite_id", 32, false, FK::Int), fd("script_id", 32, true, FK::Int),
            fd("n_sprites", hb, false, FK::Count), fd("n_scripts", hb, false, FK::Count),
            fd("multi-entry-no-thtx", 0, false, FK::Layout),
        ];
        if old {
            f.push(fd("colorkey", 32, false, FK::Int));
            f.push(fd("offset_x", 0, false, FK::NoSlot)); f.push(fd("offset_y", 0, false, FK::NoSlot)); f.push(fd("low_res_scale", 0, false, FK::NoSlot));
        } else {
            f.push(fd("offset_x", 16, false, FK::Int)); f.push(fd("offset_y", 16, false, FK::Int)); f.push(fd("low_res_scale", 16, false, FK::Bool));
            f.push(fd("colorkey", 0, false, FK::NoSlot));
        }
        script_fields(&sc, &mut f);
        v.push(Class { name, kind: Kind::Anm, game, fields: f, scripts: vec![sc] });
    }
    // ---- STD
    for (name, game, always) in [("std-06", "th06", true), ("std-08", "th08", true), ("std-10", "th12", true)] {
        if !always && !thorough { continue; }
        let game = g(game);
        let sc = scfg(m2::std_instr_layout(game), "");
        let mut f = vec![
            fd("unknown", 32, false, FK::Int), fd("layer", 16, false, FK::Int), fd("anm_script", 16, false, FK::Int),
            fd("inst_unknown", 16, false, FK::Int),
            fd("n_objects", 16, false, FK::Count), fd("n_quads", 16, false, FK::Count), fd("n_instances", 0, false, FK::Count),
        ];
        if m2::std_is_06_format(game) {
            f.push(fd("stage_name_len", 128 * 8, false, FK::FixedStr));
            f.push(fd("bgm_name_len", 128 * 8, false, FK::FixedStr));
            f.push(fd("bgm_path_len", 128 * 8, false, FK::FixedStr));
        } else {
            f.push(fd("anm_path_len", 128 * 8, false, FK::FixedStr));
        }
        script_fields(&sc, &mut f);
        v.push(Class { name, kind: Kind::Std, game, fields: f, scripts: vec![sc] });
    }
    // ---- MSG
    for (name, game) in [("msg-06", "th06"), ("msg-09", "th09")] {
        let game = g(game);
        let sc = scfg(InstrLayout::Msg, "");
        let mut f = vec![
            if m2::msg_table_has_flags(game) { fd("flags", 32, false, FK::Int) } else { fd("flags", 0, false, FK::NoSlot) },
            fd("n_entries", 32, false, FK::Count), fd("table_len", 32, false, FK::TableLen),
        ];
        script_fields(&sc, &mut f);
        v.push(Class { name, kind: Kind::Msg, game, fields: f, scripts: vec![sc] });
    }
    // ---- mission
    {
        let f = vec![fd("stage", 16, false, FK::Int), fd("scene", 16, false, FK::Int), fd("face", 32, false, FK::Int), fd("point", 32, false, FK::Int),
                     fd("text_len", 64 * 8, false, FK::FixedStr), fd("n_entries", 32, false, FK::Count)];
        v.push(Class { name: "mission-095", kind: Kind::Mission, game: g("th095"), fields: f, scripts: vec![] });
        let f = vec![fd("stage", 16, false, FK::Int), fd("scene", 16, false, FK::Int), fd("player", 16, false, FK::Int),
                     fd("unknown_1", 8, false, FK::Int), fd("unknown_2", 8, false, FK::Int), fd("point_1", 32, false, FK::Int), fd("point_2", 32, false, FK::Int),
                     fd("furigana", 32, false, FK::Int), fd("text_len", 64 * 8, false, FK::FixedStr), fd("n_entries", 32, false, FK::Count)];
        v.push(Class { name: "mission-125", kind: Kind::Mission, game: g("th125"), fields: f, scripts: vec![] });
    }
    // ---- old ECL (+ timelines)
    for (name, game, always) in [("ecl-06", "th06", true), ("ecl-07", "th07", true), ("ecl-08", "th08", true), ("ecl-095", "th095", true), ("ecl-09", "th09", false)] {
        if !always && !thorough { continue; }
        let game = g(game);
        let sub = scfg(m2::ecl_sub_layout(game), "sub.");
        let tl = scfg(m2::ecl_timeline_layout(game), "tl.");
        let mut f = vec![fd("n_subs", 16, false, FK::Count), fd("n_timelines", if game == g("th06") { 0 } else { 16 }, false, FK::Count)];
        script_fields(&sub, &mut f);
        script_fields(&tl, &mut f);
        v.push(Class { name, kind: Kind::Ecl, game, fields: f, scripts: vec![sub, tl] });
    }
    v
}

// =============================================================================================
// value sets

fn dedup(mut v: Vec<i64>) -> Vec<i64> {
    let mut seen = BTreeSet::new();
    v.retain(|x| seen.insert(*x));
    v
}

/// (min, max) of the nominal interpretation, and of the lenient (either signedness) one
fn nominal_range(bits: u32, signed: bool) -> (i64, i64) {
    if signed { (-(1i64 << (bits - 1)), (1i64 << (bits - 1)) - 1) } else { (0, (1i64 << bits) - 1) }
}
fn lenient_fits(v: i64, bits: u32) -> bool {
    if bits >= 64 { return true; }
    v >= -(1i64 << (bits - 1)) && v <= (1i64 << bits) - 1
}
fn strict_fits(v: i64, bits: u32, signed: bool) -> bool { let (lo, hi) = nominal_range(bits, signed); v >= lo && v <= hi }

fn int_values(bits: u32) -> Vec<i64> {
    if bits >= 32 {
        return vec![0, 1, i32::MAX as i64 - 1, i32::MAX as i64, -1, i32::MIN as i64 + 1, i32::MIN as i64, 1i64 << 31, u32::MAX as i64, 1i64 << 32, (1i64 << 32) + 5];
    }
    let umax = (1i64 << bits) - 1;
    let smax = (1i64 << (bits - 1)) - 1;
    let smin = -(1i64 << (bits - 1));
    dedup(vec![0, 1, smax - 1, smax, smax + 1, umax - 1, umax, umax + 1, umax + 6, 2 * umax, 2 * (umax + 1), -1, smin, smin - 1, -umax, -(umax + 1),
               i32::MIN as i64, i32::MAX as i64])
}

fn len_values(max_args: i64, string: bool) -> Vec<i64> {
    let a = max_args;
    let mut v: Vec<i64> = if string {
        // string of L bytes occupies (L/4 + 1) * 4 bytes
        vec![0, 3, 4, a - 5, a - 1, a, a + 3, a + 4, a + 252, 2 * a, 65531, 65532, 65535, 65536, 70000]
    } else {
        vec![0, 1, 4, 8, a - 4, a - 1, a, a + 1, a + 4, a + 8, 2 * a, 248, 252, 256, 260, 32752, 32756, 32760, 32768, 65520, 65528, 65532, 65536, 65540]
    };
    v.retain(|&x| x >= 0);
    dedup(v)
}

fn field_values(cl: &Class, f: &FieldDef, thorough: bool) -> Vec<i64> {
    let sc = cl.scripts.iter().find(|s| f.name.starts_with(s.pfx)).or(cl.scripts.first());
    match f.kind {
        FK::Int => {
            let mut v = int_values(f.bits);
            if f.name == "img_width" || f.name == "img_height" { v.retain(|&x| (0..=200_000).contains(&x)); } // see `assumptions`
            if f.name.ends_with("opcode_map") { v.retain(|x| x.abs() < (1 << 31)); v.extend([65536 + 100, -65535]); }
            dedup(v)
        },
        FK::NoSlot => vec![0, 1, 7],
        FK::Count => {
            if f.name == "n_timelines" {
                let mut v = vec![0, 1, 2, 3, 4, 14, 15, 16, 17];
                if thorough && cl.name == "ecl-09" { v.extend([255, 256, 65535, 65536, 65537]); }
                return v;
            }
            let mut v = vec![0, 1, 2, 3, 255, 256, 257];
            if thorough && heavy_allowed(cl.name, &f.name) { if f.bits == 16 { v.extend([65535, 65536, 65537]); } else { v.push(65536); } }
            v
        },
        FK::FixedStr => { let cap = (f.bits / 8) as i64; vec![0, 1, cap - 2, cap - 1, cap, cap + 1, 2 * cap - 1, 2 * cap, 300] },
        FK::ArgStr => len_values(sc.map(|s| s.max_args()).unwrap_or(252), true),
        FK::Blob => {
            let s = sc.expect("script cfg");
            if s.fixed12 { vec![0, 4, 8, 12, 16, 20] } else { len_values(s.max_args(), false) }
        },
        FK::Diff => vec![0, 1, 0x0f, 0x80, 0xf0, 0xff],
        FK::Layout => vec![8, 9, 16, 17, 18, 19, 24, 25, 26, 27, 28, 29, 30, 31],
        FK::Bool => vec![0, 1],
        FK::TableLen => { let mut v = vec![0, 1, 2, 3, 4, 255, 256]; if thorough && heavy_allowed(cl.name, &f.name) { v.push(65536); } v },
    }
}

/// The 65535..65537-item cases cost 20-60 s and up to 1 GB each: they are run for one representative class
/// per distinct writer code path (the other classes of the same container share that code).
fn heavy_allowed(class: &str, field: &str) -> bool {
    matches!((class, field),
        ("anm-v7", "n_sprites") | ("anm-v7", "n_scripts") | ("anm-v2", "n_sprites") | ("anm-v2", "n_scripts")
        | ("std-10", "n_objects") | ("std-10", "n_quads") | ("std-10", "n_instances")
        | ("ecl-06", "n_subs") | ("ecl-07", "n_subs") | ("ecl-09", "n_timelines")
        | ("msg-09", "n_entries") | ("msg-09", "table_len") | ("mission-125", "n_entries"))
}

/// reduced value set for D = 2
fn pair_values(cl: &Class, f: &FieldDef) -> Vec<i64> {
    match f.kind {
        FK::Int if f.bits >= 32 => vec![-1, i32::MAX as i64],
        FK::Int => { let umax = (1i64 << f.bits) - 1; let mut v = vec![umax, umax + 1, -1]; if f.name.starts_with("img_") { v.retain(|&x| x >= 0); } v },
        FK::NoSlot => vec![],
        FK::Count => if f.name == "n_timelines" { vec![0, 2] } else { vec![0, 3] },
        FK::FixedStr => { let cap = (f.bits / 8) as i64; vec![cap - 1, cap] },
        FK::ArgStr | FK::Blob => {
            let sc = cl.scripts.iter().find(|s| f.name.starts_with(s.pfx)).unwrap();
            if sc.fixed12 { vec![] } else if f.kind == FK::ArgStr { vec![sc.max_args() - 1, sc.max_args()] } else { vec![sc.max_args(), sc.max_args() + 4] }
        },
        FK::Diff => vec![0x81],
        FK::Layout => vec![],
        FK::Bool => vec![],
        FK::TableLen => vec![],
    }
}

fn is_heavy(f: &FieldDef, v: i64) -> bool { f.kind == FK::Count && v >= 60000 || f.kind == FK::TableLen && v >= 60000 }

/// the stated non-trivial rule: the deviating value does not fit the stored width of its field
fn is_nontrivial(cl: &Class, f: &FieldDef, v: i64) -> bool {
    match f.kind {
        FK::Int => !lenient_fits(v, f.bits),
        FK::Count => f.bits > 0 && f.bits < 64 && !strict_fits(v, f.bits, false),
        FK::FixedStr => v >= (f.bits / 8) as i64,
        FK::ArgStr => { let sc = cl.scripts.iter().find(|s| f.name.starts_with(s.pfx)).unwrap(); (v / 4 + 1) * 4 > sc.size_max - sc.size_hdr },
        FK::Blob => { let sc = cl.scripts.iter().find(|s| f.name.starts_with(s.pfx)).unwrap(); if sc.fixed12 { v != 12 } else { v > sc.size_max - sc.size_hdr } },
        _ => false,
    }
}

// =============================================================================================
// rendering: model -> (source, mapfile, wants)

#[derive(Debug, Clone, PartialEq)]
enum Want {
    Int(i64),
    Bytes(Vec<u8>),
    /// integer of `width` bytes at `off` inside the blob stored under the same key
    ArgInt { off: usize, width: usize, value: i64 },
    /// the source set a field this format has no slot for
    NoSlot(i64),
}

/// `must_warn`: the source asks for something the documented semantics drop (MSG table entries beyond
/// `table_len`); a successful compile must then at least carry a warning.
struct Rendered { src: String, mapfile: String, wants: Vec<(String, Want)>, must_warn: Option<&'static str> }

struct Ov<'a>(&'a [Dev]);
impl<'a> Ov<'a> {
    fn get(&self, f: &str) -> Option<i64> { self.0.iter().find(|d| d.field == f).map(|d| d.value) }
    fn or(&self, f: &str, d: i64) -> i64 { self.get(f).unwrap_or(d) }
}

#[derive(Default)]
struct MapB { magic: &'static str, sigs: Vec<(i64, String)>, names: Vec<(i64, String)>, tl_sigs: Vec<(i64, String)>, tl_names: Vec<(i64, String)> }
impl MapB {
    fn sig(&mut self, timeline: bool, op: i64, s: &str) {
        let v = if timeline { &mut self.tl_sigs } else { &mut self.sigs };
        if !v.iter().any(|x| x.0 == op) { v.push((op, s.to_string())); }
    }
    fn name(&mut self, timeline: bool, op: i64, s: &str) { if timeline { self.tl_names.push((op, s.into())); } else { self.names.push((op, s.into())); } }
    fn render(&self) -> String {
        let mut o = format!("{}\n", self.magic);
        for (hdr, v) in [("!ins_names", &self.names), ("!ins_signatures", &self.sigs), ("!timeline_ins_names", &self.tl_names), ("!timeline_ins_signatures", &self.tl_sigs)] {
            if v.is_empty() { continue; }
            o += hdr; o.push('\n');
            for (k, s) in v { o += &format!("{k} {s}\n"); }
        }
        o
    }
}

fn blob_pattern(n: usize) -> Vec<u8> { (0..n).map(|i| (i.wrapping_mul(7).wrapping_add(1) & 0xff) as u8).collect() }
fn hex(b: &[u8]) -> String { let mut s = String::with_capacity(b.len() * 2); for x in b { s += &format!("{x:02x}"); } s }
fn le(v: i64, n: usize) -> Vec<u8> { (v as u64).to_le_bytes()[..n].to_vec() }
fn a_string(n: i64) -> String { "a".repeat(n.max(0) as usize) }

fn simple_script_body(c: &SCfg, map: &mut MapB, key: &str, wants: &mut Vec<(String, Want)>) -> String {
    map.sig(c.timeline, c.op_fill, if c.fixed12 { "SSS" } else { "S" });
    wants.push((format!("{key}.n"), Want::Int(1)));
    wants.push((format!("{key}.i0.time"), Want::Int(0)));
    wants.push((format!("{key}.i0.opcode"), Want::Int(c.op_fill)));
    if c.fixed12 {
        wants.push((format!("{key}.i0.args"), Want::Bytes([le(1, 4), le(2, 4), le(3, 4)].concat())));
        format!("    ins_{}(1, 2, 3);\n", c.op_fill)
    } else {
        wants.push((format!("{key}.i0.args"), Want::Bytes(le(1, 4))));
        format!("    ins_{}(1);\n", c.op_fill)
    }
}

/// The probe script: filler; the deviating instruction; small-argument instruction; string; blob; filler.
fn probe_script_body(c: &SCfg, ov: &Ov, map: &mut MapB, key: &str, wants: &mut Vec<(String, Want)>) -> String {
    let f = |n: &str| format!("{}{n}", c.pfx);
    let mut s = String::new();
    let mut k = 0usize;
    let push_common = |wants: &mut Vec<(String, Want)>, k: usize, time: i64, opcode: i64| {
        wants.push((format!("{key}.i{k}.time"), Want::Int(time)));
        wants.push((format!("{key}.i{k}.opcode"), Want::Int(opcode)));
    };
    let fill_sig = if c.fixed12 { "SSS" } else { "S" };
    map.sig(c.timeline, c.op_fill, fill_sig);

    // i0: filler at time 0
    if c.fixed12 { s += &format!("    ins_{}(1, 2, 3);\n", c.op_fill); wants.push((format!("{key}.i{k}.args"), Want::Bytes([le(1, 4), le(2, 4), le(3, 4)].concat()))); }
    else { s += &format!("    ins_{}(1);\n", c.op_fill); wants.push((format!("{key}.i{k}.args"), Want::Bytes(le(1, 4)))); }
    push_common(wants, k, 0, c.op_fill);
    k += 1;

    // i1: the deviating instruction
    let time = ov.or(&f("time"), 10);
    s += &format!("{time}:\n");
    let via_name = ov.get(&f("opcode_map"));
    let opcode = via_name.unwrap_or_else(|| ov.or(&f("opcode"), c.op_dev));
    let callee = match via_name {
        Some(n) => { map.name(c.timeline, n, "devins"); "devins".to_string() },
        None => format!("ins_{opcode}"),
    };
    map.sig(c.timeline, opcode, fill_sig);
    let mut pseudo = String::new();
    let mask = match ov.get(&f("mask")) { Some(m) => Some(m), None if c.mask_bits > 0 => Some(1), None => None };
    if let Some(m) = mask {
        pseudo += &format!("@mask={m}, ");
        wants.push((format!("{key}.i{k}.mask"), if c.mask_bits > 0 { Want::Int(m) } else { Want::NoSlot(m) }));
    }
    if c.has_arg0 {
        let a = ov.or(&f("arg0"), 3);
        pseudo += &format!("@arg0={a}, ");
        wants.push((format!("{key}.i{k}.arg0"), Want::Int(a)));
    }
    let diff = ov.get(&f("diff"));
    if let Some(d) = diff {
        let digits: String = (0..8).filter(|b| d >> b & 1 == 1).map(|b| char::from(b'0' + b as u8)).collect();
        s += &format!("    {{\"-*+{digits}\"}}:\n");
        wants.push((format!("{key}.i{k}.diff"), Want::Int(d)));
    }
    // the same label on a statement inside a block that carries another label: the statement's own label decides
    let diff_nested = ov.get(&f("diff_nested"));
    if let Some(d) = diff_nested {
        let digits: String = (0..8).filter(|b| d >> b & 1 == 1).map(|b| char::from(b'0' + b as u8)).collect();
        s += &format!("    {{\"-*+0\"}}: {{\n    {{\"-*+{digits}\"}}:\n");
        wants.push((format!("{key}.i{k}.diff"), Want::Int(d)));
    }
    if c.fixed12 { s += &format!("    {callee}({pseudo}7, 8, 9);\n"); wants.push((format!("{key}.i{k}.args"), Want::Bytes([le(7, 4), le(8, 4), le(9, 4)].concat()))); }
    else { s += &format!("    {callee}({pseudo}7);\n"); wants.push((format!("{key}.i{k}.args"), Want::Bytes(le(7, 4)))); }
    push_common(wants, k, time, opcode);
    if diff_nested.is_some() { s += "    }\n"; }
    if diff.is_some() { s += "    {\"*\"}:\n"; }
    k += 1;

    // i2: small arguments
    let (a_s, a_u, a_c, a_b) = (ov.or(&f("arg_s"), -2), ov.or(&f("arg_u"), 2), ov.or(&f("arg_c"), -3), ov.or(&f("arg_b"), 3));
    if c.fixed12 { map.sig(c.timeline, c.op_small, "sucb--S"); s += &format!("    ins_{}({a_s}, {a_u}, {a_c}, {a_b}, 9);\n", c.op_small); }
    else { map.sig(c.timeline, c.op_small, "sucb--"); s += &format!("    ins_{}({a_s}, {a_u}, {a_c}, {a_b});\n", c.op_small); }
    push_common(wants, k, time, c.op_small);
    for (nm, off, width, value) in [("arg_s", 0, 2, a_s), ("arg_u", 2, 2, a_u), ("arg_c", 4, 1, a_c), ("arg_b", 5, 1, a_b)] {
        wants.push((format!("{key}.i{k}.args#{nm}"), Want::ArgInt { off, width, value }));
    }
    wants.push((format!("{key}.i{k}.argsize"), Want::Int(if c.fixed12 { 12 } else { 8 })));
    k += 1;

    // i3: string argument
    if !c.fixed12 {
        let l = ov.or(&f("str_len"), 5);
        map.sig(c.timeline, c.op_str, "z(bs=4)");
        s += &format!("    ins_{}(\"{}\");\n", c.op_str, a_string(l));
        let mut b = vec![b'a'; l as usize];
        b.push(0);
        while b.len() % 4 != 0 { b.push(0); }
        wants.push((format!("{key}.i{k}.args"), Want::Bytes(b)));
        push_common(wants, k, time, c.op_str);
        k += 1;
    }

    // i4: blob
    let bl = ov.or(&f("blob_len"), if c.fixed12 { 12 } else { 8 });
    let blob = blob_pattern(bl as usize);
    s += &format!("    ins_{}(@blob=\"{}\");\n", c.op_blob, hex(&blob));
    wants.push((format!("{key}.i{k}.args"), Want::Bytes(blob)));
    push_common(wants, k, time, c.op_blob);
    k += 1;

    // i5: filler at time 20
    s += "20:\n";
    if c.fixed12 { s += &format!("    ins_{}(4, 5, 6);\n", c.op_fill); wants.push((format!("{key}.i{k}.args"), Want::Bytes([le(4, 4), le(5, 4), le(6, 4)].concat()))); }
    else { s += &format!("    ins_{}(2);\n", c.op_fill); wants.push((format!("{key}.i{k}.args"), Want::Bytes(le(2, 4)))); }
    push_common(wants, k, 20, c.op_fill);
    k += 1;
    wants.push((format!("{key}.n"), Want::Int(k as i64)));
    s
}

fn f32w(x: f32) -> Want { Want::Int(x.to_bits() as i64) }

fn render(cl: &Class, devs: &[Dev]) -> Rendered {
    let ov = Ov(devs);
    match cl.kind {
        Kind::Anm => render_anm(cl, &ov),
        Kind::Std => render_std(cl, &ov),
        Kind::Msg | Kind::End => render_msg(cl, &ov),
        Kind::Mission => render_mission(cl, &ov),
        Kind::Ecl => render_ecl(cl, &ov),
    }
}

fn render_anm(cl: &Class, ov: &Ov) -> Rendered {
    let sc = &cl.scripts[0];
    let old = m2::anm_has_old_header(cl.game);
    let mut map = MapB { magic: "!anmmap", ..Default::default() };
    let mut w: Vec<(String, Want)> = vec![];
    let mut s = String::new();
    let (n_entries, dummy_mask) = match ov.get("multi-entry-no-thtx") { Some(v) => ((v / 8) as usize, (v % 8) as u32), None => (1, 1) };
    w.push(("n_entries".into(), Want::Int(n_entries as i64)));
    for e in 0..n_entries {
        let first = e == 0;
        let dummy = dummy_mask >> e & 1 == 1;
        let getf = |name: &str, d: i64| if first { ov.or(name, d) } else { d };
        let (iw, ih, ifmt) = (getf("img_width", 8), getf("img_height", 4), getf("img_format", 3));
        let (rw, rh, rf) = (getf("rt_width", 16), getf("rt_height", 8), getf("rt_format", 3));
        let mp = getf("memory_priority", 11);
        s += "entry {\n";
        s += &format!("    path: \"subdir/e{e}.png\",\n");
        w.push((format!("e{e}.path"), Want::Bytes(format!("subdir/e{e}.png").into_bytes())));
        s += &format!("    has_data: {},\n", if dummy { "\"dummy\"" } else { "false" });
        w.push((format!("e{e}.has_data"), Want::Int(dummy as i64)));
        w.push((format!("e{e}.thtx"), Want::Int(dummy as i64)));
        s += &format!("    img_width: {iw}, img_height: {ih}, img_format: {ifmt},\n");
        if dummy {
            w.push((format!("e{e}.thtx.width"), Want::Int(iw)));
            w.push((format!("e{e}.thtx.height"), Want::Int(ih)));
            w.push((format!("e{e}.thtx.format"), Want::Int(ifmt)));
        }
        s += &format!("    rt_width: {rw}, rt_height: {rh}, rt_format: {rf},\n");
        w.push((format!("e{e}.rt_width"), Want::Int(rw)));
        w.push((format!("e{e}.rt_height"), Want::Int(rh)));
        w.push((format!("e{e}.rt_format"), Want::Int(rf)));
        s += &format!("    memory_priority: {mp},\n");
        w.push((format!("e{e}.memory_priority"), Want::Int(mp)));
        // header-shape dependent fields
        let ck = if first { ov.get("colorkey") } else { None };
        let (ox, oy, lrs) = if first { (ov.get("offset_x"), ov.get("offset_y"), ov.get("low_res_scale")) } else { (None, None, None) };
        if old {
            let ck = ck.unwrap_or(0x11223344);
            s += &format!("    colorkey: {ck},\n");
            w.push((format!("e{e}.colorkey"), Want::Int(ck)));
            if let Some(x) = ox { s += &format!("    offset_x: {x},\n"); w.push((format!("e{e}.offset_x"), Want::NoSlot(x))); }
            if let Some(x) = oy { s += &format!("    offset_y: {x},\n"); w.push((format!("e{e}.offset_y"), Want::NoSlot(x))); }
            if let Some(x) = lrs { s += &format!("    low_res_scale: {},\n", x != 0); w.push((format!("e{e}.low_res_scale"), Want::NoSlot(x))); }
        } else {
            let (ox, oy, lrs) = (ox.unwrap_or(3), oy.unwrap_or(5), lrs.unwrap_or(1));
            s += &format!("    offset_x: {ox}, offset_y: {oy}, low_res_scale: {},\n", lrs != 0);
            w.push((format!("e{e}.offset_x"), Want::Int(ox)));
            w.push((format!("e{e}.offset_y"), Want::Int(oy)));
            w.push((format!("e{e}.low_res_scale"), Want::Int((lrs != 0) as i64)));
            if let Some(x) = ck { s += &format!("    colorkey: {x},\n"); w.push((format!("e{e}.colorkey"), Want::NoSlot(x))); }
        }
        // sprites
        let n_sprites = if first { ov.or("n_sprites", 1) } else { 1 };
        s += "    sprites: {\n";
        for j in 0..n_sprites {
            let id = if first && j == 0 { ov.or("sprite_id", 0) } else { 1000 * e as i64 + j };
            s += &format!("        sp{e}_{j}: {{id: {id}, x: 1.0, y: 2.0, w: 3.0, h: 4.5}},\n");
            w.push((format!("e{e}.sp{j}.id"), Want::Int(id)));
            if j < 4 {
                for (nm, x) in [("x", 1.0f32), ("y", 2.0), ("w", 3.0), ("h", 4.5)] { w.push((format!("e{e}.sp{j}.{nm}"), f32w(x))); }
            }
        }
        s += "    },\n}\n";
        w.push((format!("e{e}.num_sprites"), Want::Int(n_sprites)));
        w.push((format!("e{e}.n_sprites"), Want::Int(n_sprites)));
        // scripts
        let n_scripts = if first { ov.or("n_scripts", 1) } else { 1 };
        for j in 0..n_scripts {
            let id = if first && j == 0 { ov.or("script_id", 5) } else { 100 + 1000 * e as i64 + j };
            let key = format!("e{e}.sc{j}");
            s += &format!("script {id} scr{e}_{j} {{\n");
            if first && j == 0 { s += &probe_script_body(sc, ov, &mut map, &key, &mut w); } else { s += &simple_script_body(sc, &mut map, &key, &mut w); }
            s += "}\n";
            w.push((format!("{key}.id"), Want::Int(id)));
        }
        w.push((format!("e{e}.num_scripts"), Want::Int(n_scripts)));
        w.push((format!("e{e}.n_scripts"), Want::Int(n_scripts)));
    }
    Rendered { src: s, mapfile: map.render(), wants: w, must_warn: None }
}

fn render_std(cl: &Class, ov: &Ov) -> Rendered {
    let sc = &cl.scripts[0];
    let is06 = m2::std_is_06_format(cl.game);
    let mut map = MapB { magic: "!stdmap", ..Default::default() };
    let mut w: Vec<(String, Want)> = vec![];
    let mut s = String::from("meta {\n");
    let unknown = ov.or("unknown", 7);
    s += &format!("    unknown: {unknown},\n");
    w.push(("unknown".into(), Want::Int(unknown)));
    let fixed = |l: i64| -> Want { Want::Bytes(vec![b'a'; l.max(0) as usize]) };
    if is06 {
        let (l0, l1, l2) = (ov.or("stage_name_len", 2), ov.or("bgm_name_len", 3), ov.or("bgm_path_len", 4));
        s += &format!("    stage_name: \"{}\",\n    bgm: [\n", a_string(l0));
        w.push(("str0".into(), fixed(l0)));
        for k in 0..4 {
            let (ln, lp) = if k == 0 { (l1, l2) } else { (1, 1) };
            s += &format!("        {{path: \"{}\", name: \"{}\"}},\n", a_string(lp), a_string(ln));
            w.push((format!("str{}", 1 + k), fixed(ln)));
            w.push((format!("str{}", 5 + k), fixed(lp)));
        }
        s += "    ],\n";
    } else {
        let l0 = ov.or("anm_path_len", 9);
        s += &format!("    anm_path: \"{}\",\n", a_string(l0));
        w.push(("str0".into(), fixed(l0)));
    }
    let n_obj = ov.or("n_objects", 2);
    let n_quads = ov.or("n_quads", 2);
    let n_inst = ov.or("n_instances", 2);
    let strip = matches!(cl.game, Game::Th08 | Game::Th09);
    s += "    objects: {\n";
    let mut total_quads = 0i64;
    for k in 0..n_obj {
        let layer = if k == 0 { ov.or("layer", 4) } else { 2 };
        s += &format!("        obj{k}: {{layer: {layer}, pos: [1.0, 2.0, 3.0], size: [4.0, 5.0, 6.5], quads: [");
        w.push((format!("o{k}.id"), Want::Int(k)));
        w.push((format!("o{k}.layer"), Want::Int(layer)));
        if k < 3 { for (i, x) in [1.0f32, 2.0, 3.0, 4.0, 5.0, 6.5].iter().enumerate() { w.push((format!("o{k}.f{i}"), f32w(*x))); } }
        let nq = if k == 0 { n_quads } else { 0 };
        for q in 0..nq {
            let asn = if q == 0 { ov.or("anm_script", 3) } else { 9 };
            if strip && q == 1 {
                s += &format!("\n            strip {{anm_script: {asn}, start: [1.0, 2.0, 3.0], end: [4.0, 5.0, 6.0], width: 7.5}},");
                w.push((format!("o{k}.q{q}.kind"), Want::Int(1)));
            } else {
                s += &format!("\n            rect {{anm_script: {asn}, pos: [1.0, 2.0, 3.0], size: [4.0, 5.5]}},");
                w.push((format!("o{k}.q{q}.kind"), Want::Int(0)));
            }
            w.push((format!("o{k}.q{q}.anm_script"), Want::Int(asn)));
        }
        w.push((format!("o{k}.n_quads"), Want::Int(nq)));
        total_quads += nq;
        s += "]},\n";
    }
    s += "    },\n    instances: [\n";
    let mut ni = 0;
    if n_obj > 0 {
        for k in 0..n_inst {
            // the first instance carries the deviating `unknown`; the second names the LAST object
            let obj = if k == 1 { n_obj - 1 } else { 0 };
            if k == 0 {
                let u = ov.or("inst_unknown", 5);
                s += &format!("        obj{obj} {{unknown: {u}, pos: [1.0, 2.0, 3.0]}},\n");
                w.push((format!("inst{k}.unknown"), Want::Int(u)));
            } else {
                s += &format!("        obj{obj} {{pos: [1.0, 2.0, 3.0]}},\n");
            }
            w.push((format!("inst{k}.object_id"), Want::Int(obj)));
            ni += 1;
        }
    }
    s += "    ],\n}\n";
    w.push(("num_objects".into(), Want::Int(n_obj)));
    w.push(("n_objects".into(), Want::Int(n_obj)));
    w.push(("num_quads".into(), Want::Int(total_quads)));
    w.push(("n_instances".into(), Want::Int(ni)));
    s += "script main {\n";
    s += &probe_script_body(sc, ov, &mut map, "main", &mut w);
    s += "}\n";
    Rendered { src: s, mapfile: map.render(), wants: w, must_warn: None }
}

fn render_msg(cl: &Class, ov: &Ov) -> Rendered {
    let sc = &cl.scripts[0];
    let has_flags = m2::msg_table_has_flags(cl.game);
    let mut map = MapB { magic: "!msgmap", ..Default::default() };
    let mut w: Vec<(String, Want)> = vec![];
    let n = ov.or("n_entries", 3);
    let table_len = ov.get("table_len");
    let mut s = String::from("meta {\n");
    if let Some(tl) = table_len { s += &format!("    table_len: {tl},\n"); }
    s += "    table: {\n";
    let eff_len = table_len.unwrap_or(n);
    for k in 0..n {
        let flags = if k == 0 { ov.get("flags").or(if has_flags { Some(256) } else { None }) } else { None };
        match flags {
            Some(f) => s += &format!("        {k}: {{script: \"s{k}\", flags: {f}}},\n"),
            None => s += &format!("        {k}: {{script: \"s{k}\"}},\n"),
        }
        if k < eff_len {
            w.push((format!("t{k}.script"), Want::Int(k)));
            if let Some(f) = flags { w.push((format!("t{k}.flags"), if has_flags { Want::Int(f) } else { Want::NoSlot(f) })); }
        }
    }
    for k in n..eff_len { if k < n + 300 { w.push((format!("t{k}.offset"), Want::Int(0))); } }
    s += "    },\n}\n";
    w.push(("table_len".into(), Want::Int(eff_len)));
    for k in 0..n {
        let key = format!("s{k}");
        s += &format!("script s{k} {{\n");
        // the walker only finds scripts the table refers to, and the last one it finds runs to the end of the file
        let mut sink = vec![];
        let dest = if k < eff_len && (eff_len >= n || k + 1 < eff_len) { &mut w } else { &mut sink };
        if k == 0 { s += &probe_script_body(sc, ov, &mut map, &key, dest); } else { s += &simple_script_body(sc, &mut map, &key, dest); }
        s += "}\n";
    }
    w.push(("n_scripts".into(), Want::Int(n.min(eff_len))));
    let must_warn = if eff_len < n { Some("table entries beyond table_len") } else { None };
    Rendered { src: s, mapfile: map.render(), wants: w, must_warn }
}

fn render_mission(cl: &Class, ov: &Ov) -> Rendered {
    let is095 = cl.game == Game::Th095;
    let mut w: Vec<(String, Want)> = vec![];
    let mut s = String::new();
    let n = ov.or("n_entries", 2);
    let nlines = if is095 { 3 } else { 6 };
    for k in 0..n {
        let first = k == 0;
        let getf = |name: &str, d: i64| if first { ov.or(name, d) } else { d };
        let (stage, scene) = (getf("stage", 1 + k % 50), getf("scene", 2));
        let tl = getf("text_len", 5);
        let mut lines = vec![];
        for l in 0..nlines {
            let len = if l == 0 { tl } else { l as i64 };
            lines.push(format!("\"{}\"", a_string(len)));
            if k < 3 { w.push((format!("m{k}.text{l}"), Want::Bytes(vec![b'a'; len as usize]))); }
        }
        let text = lines.join(", ");
        w.push((format!("m{k}.stage"), Want::Int(stage)));
        w.push((format!("m{k}.scene"), Want::Int(scene)));
        if is095 {
            let (face, point) = (getf("face", 3), getf("point", 1234567));
            s += &format!("entry {{ stage: {stage}, scene: {scene}, face: {face}, point: {point}, text: [{text}] }}\n");
            w.push((format!("m{k}.face"), Want::Int(face)));
            w.push((format!("m{k}.point0"), Want::Int(point)));
        } else {
            let (player, u1, u2, p1, p2, fu) = (getf("player", 1), getf("unknown_1", 7), getf("unknown_2", 9), getf("point_1", 3), getf("point_2", 1234567), getf("furigana", 6));
            s += &format!("entry {{ stage: {stage}, scene: {scene}, player: {player}, unknown_1: {u1}, unknown_2: {u2}, point_1: {p1}, point_2: {p2},\n        furigana: [[1, 2], [3, 4], [5, {fu}]], text: [{text}] }}\n");
            w.push((format!("m{k}.player"), Want::Int(player)));
            w.push((format!("m{k}.unknown_1"), Want::Int(u1)));
            w.push((format!("m{k}.unknown_2"), Want::Int(u2)));
            w.push((format!("m{k}.point0"), Want::Int(p1)));
            w.push((format!("m{k}.point1"), Want::Int(p2)));
            for (i, x) in [1, 2, 3, 4, 5, fu].iter().enumerate() { w.push((format!("m{k}.furigana{i}"), Want::Int(*x))); }
        }
    }
    w.push(("num_entries".into(), Want::Int(n)));
    w.push(("n_entries".into(), Want::Int(n)));
    Rendered { src: s, mapfile: String::new(), wants: w, must_warn: None }
}

fn render_ecl(cl: &Class, ov: &Ov) -> Rendered {
    let (sub, tl) = (&cl.scripts[0], &cl.scripts[1]);
    let mut map = MapB { magic: "!eclmap", ..Default::default() };
    let mut w: Vec<(String, Want)> = vec![];
    let mut s = String::new();
    let n_tl = ov.or("n_timelines", 1);
    let n_subs = ov.or("n_subs", 2);
    for k in 0..n_tl {
        let key = format!("tl{k}");
        s += &format!("script timeline{k} {{\n");
        if k == 0 { s += &probe_script_body(tl, ov, &mut map, &key, &mut w); } else { s += &simple_script_body(tl, &mut map, &key, &mut w); }
        s += "}\n";
    }
    for k in 0..n_subs {
        let key = format!("sub{k}");
        s += &format!("void sub{k}() {{\n");
        if k == 0 { s += &probe_script_body(sub, ov, &mut map, &key, &mut w); } else { s += &simple_script_body(sub, &mut map, &key, &mut w); }
        s += "}\n";
    }
    w.push(("num_subs".into(), Want::Int(n_subs)));
    w.push(("n_subs".into(), Want::Int(n_subs)));
    w.push(("n_timelines".into(), Want::Int(n_tl)));
    if cl.game != Game::Th06 { w.push(("num_timelines".into(), Want::Int(n_tl))); }
    Rendered { src: s, mapfile: map.render(), wants: w, must_warn: None }
}

// =============================================================================================
// probing: binary -> observed fields (through the M2 walkers only)

#[derive(Debug, Clone, PartialEq)]
enum Val { Int { v: i64, bits: u32 }, Bytes(Vec<u8>) }

type Probed = HashMap<String, Val>;

fn pi(p: &mut Probed, k: String, v: i64, bits: u32) { p.insert(k, Val::Int { v, bits }); }

fn layout_bits(l: InstrLayout) -> (u32, u32) {
    use InstrLayout::*;
    match l { Anm06 | Msg => (16, 8), Anm07 | Timeline06 => (16, 16), _ => (32, 16) }
}

fn probe_instrs(p: &mut Probed, key: &str, layout: InstrLayout, instrs: &[m2::Instr]) {
    let (tb, ob) = layout_bits(layout);
    pi(p, format!("{key}.n"), instrs.len() as i64, 64);
    for (k, i) in instrs.iter().enumerate() {
        pi(p, format!("{key}.i{k}.time"), i.time as i64, tb);
        pi(p, format!("{key}.i{k}.opcode"), i.opcode as i64, ob);
        pi(p, format!("{key}.i{k}.mask"), i.param_mask as i64, 16);
        pi(p, format!("{key}.i{k}.diff"), i.difficulty as i64, 8);
        if let Some(a) = i.extra_arg { pi(p, format!("{key}.i{k}.arg0"), a as i64, 16); }
        pi(p, format!("{key}.i{k}.argsize"), i.args.len() as i64, 64);
        p.insert(format!("{key}.i{k}.args"), Val::Bytes(i.args.clone()));
    }
}

fn probe(cl: &Class, bytes: &[u8]) -> Result<Probed, String> {
    let mut p: Probed = HashMap::new();
    match cl.kind {
        Kind::Anm => {
            let es = m2::walk_anm(bytes, cl.game)?;
            let layout = m2::anm_instr_layout(cl.game);
            pi(&mut p, "n_entries".into(), es.len() as i64, 64);
            for (e, en) in es.iter().enumerate() {
                let hb = if en.old_header { 32 } else { 16 };
                pi(&mut p, format!("e{e}.num_sprites"), en.num_sprites as i64, hb);
                pi(&mut p, format!("e{e}.num_scripts"), en.num_scripts as i64, hb);
                pi(&mut p, format!("e{e}.n_sprites"), en.sprites.len() as i64, 64);
                pi(&mut p, format!("e{e}.n_scripts"), en.scripts.len() as i64, 64);
                pi(&mut p, format!("e{e}.rt_width"), en.rt_width as i64, hb);
                pi(&mut p, format!("e{e}.rt_height"), en.rt_height as i64, hb);
                pi(&mut p, format!("e{e}.rt_format"), en.rt_format as i64, hb);
                pi(&mut p, format!("e{e}.memory_priority"), en.memory_priority as i64, 32);
                pi(&mut p, format!("e{e}.has_data"), en.has_data as i64, 16);
                pi(&mut p, format!("e{e}.thtx"), en.thtx.is_some() as i64, 64);
                if en.old_header { pi(&mut p, format!("e{e}.colorkey"), en.colorkey as i64, 32); }
                else {
                    pi(&mut p, format!("e{e}.offset_x"), en.offset_x as i64, 16);
                    pi(&mut p, format!("e{e}.offset_y"), en.offset_y as i64, 16);
                    pi(&mut p, format!("e{e}.low_res_scale"), en.low_res_scale as i64, 16);
                }
                p.insert(format!("e{e}.path"), Val::Bytes(en.path.clone()));
                if let Some(t) = &en.thtx {
                    pi(&mut p, format!("e{e}.thtx.width"), t.width as i64, 16);
                    pi(&mut p, format!("e{e}.thtx.height"), t.height as i64, 16);
                    pi(&mut p, format!("e{e}.thtx.format"), t.format as i64, 16);
                }
                for (j, sp) in en.sprites.iter().enumerate() {
                    pi(&mut p, format!("e{e}.sp{j}.id"), sp.id as i64, 32);
                    if j < 4 {
                        for (nm, x) in [("x", sp.x), ("y", sp.y), ("w", sp.w), ("h", sp.h)] { pi(&mut p, format!("e{e}.sp{j}.{nm}"), x.to_bits() as i64, 32); }
                    }
                }
                for (j, scr) in en.scripts.iter().enumerate() {
                    pi(&mut p, format!("e{e}.sc{j}.id"), scr.id as i64, 32);
                    probe_instrs(&mut p, &format!("e{e}.sc{j}"), layout, &scr.instrs);
                }
            }
        },
        Kind::Std => {
            let s = m2::walk_std(bytes, cl.game)?;
            pi(&mut p, "unknown".into(), s.unknown as i64, 32);
            pi(&mut p, "num_objects".into(), s.num_objects as i64, 16);
            pi(&mut p, "n_objects".into(), s.objects.len() as i64, 64);
            pi(&mut p, "num_quads".into(), s.num_quads as i64, 16);
            pi(&mut p, "n_instances".into(), s.instances.len() as i64, 64);
            for (k, st) in s.strings.iter().enumerate() { p.insert(format!("str{k}"), Val::Bytes(m2::trim_nul(st).to_vec())); }
            for (k, o) in s.objects.iter().enumerate() {
                pi(&mut p, format!("o{k}.id"), o.id as i64, 16);
                pi(&mut p, format!("o{k}.layer"), o.layer as i64, 16);
                pi(&mut p, format!("o{k}.n_quads"), o.quads.len() as i64, 64);
                if k < 3 { for (i, x) in o.pos.iter().chain(o.size.iter()).enumerate() { pi(&mut p, format!("o{k}.f{i}"), x.to_bits() as i64, 32); } }
                for (q, qu) in o.quads.iter().enumerate() {
                    pi(&mut p, format!("o{k}.q{q}.kind"), qu.kind as i64, 16);
                    pi(&mut p, format!("o{k}.q{q}.anm_script"), qu.anm_script as i64, 16);
                }
            }
            for (k, i) in s.instances.iter().enumerate() {
                pi(&mut p, format!("inst{k}.object_id"), i.object_id as i64, 16);
                pi(&mut p, format!("inst{k}.unknown"), i.unknown as i64, 16);
            }
            probe_instrs(&mut p, "main", m2::std_instr_layout(cl.game), &s.script);
        },
        Kind::Msg | Kind::End => {
            let m = m2::walk_msg(bytes, cl.game, cl.kind == Kind::End)?;
            pi(&mut p, "table_len".into(), m.table_len as i64, 32);
            pi(&mut p, "n_scripts".into(), m.scripts.len() as i64, 64);
            for (k, t) in m.table.iter().enumerate() {
                pi(&mut p, format!("t{k}.offset"), t.script_offset as i64, 32);
                if let Some(ix) = m.scripts.iter().position(|s| s.0 == t.script_offset as usize) { pi(&mut p, format!("t{k}.script"), ix as i64, 64); }
                if let Some(f) = t.flags { pi(&mut p, format!("t{k}.flags"), f as i64, 32); }
            }
            for (k, sc) in m.scripts.iter().enumerate() { probe_instrs(&mut p, &format!("s{k}"), InstrLayout::Msg, &sc.1); }
        },
        Kind::Mission => {
            let m = m2::walk_mission(bytes, cl.game)?;
            pi(&mut p, "num_entries".into(), m.num_entries as i64, 32);
            pi(&mut p, "n_entries".into(), m.entries.len() as i64, 64);
            for (k, e) in m.entries.iter().enumerate() {
                pi(&mut p, format!("m{k}.stage"), e.stage as i64, 16);
                pi(&mut p, format!("m{k}.scene"), e.scene as i64, 16);
                if cl.game == Game::Th095 { pi(&mut p, format!("m{k}.face"), e.face as i64, 32); }
                else {
                    pi(&mut p, format!("m{k}.player"), e.player as i64, 16);
                    pi(&mut p, format!("m{k}.unknown_1"), e.unknown_1 as i64, 8);
                    pi(&mut p, format!("m{k}.unknown_2"), e.unknown_2 as i64, 8);
                }
                for (i, x) in e.points.iter().enumerate() { pi(&mut p, format!("m{k}.point{i}"), *x as i64, 32); }
                for (i, x) in e.furigana.iter().enumerate() { pi(&mut p, format!("m{k}.furigana{i}"), *x as i64, 32); }
                if k < 3 { for (l, t) in e.text_plain.iter().enumerate() { p.insert(format!("m{k}.text{l}"), Val::Bytes(m2::trim_nul(t).to_vec())); } }
            }
        },
        Kind::Ecl => {
            let e = m2::walk_ecl(bytes, cl.game)?;
            pi(&mut p, "num_subs".into(), e.num_subs as i64, 16);
            pi(&mut p, "n_subs".into(), e.subs.len() as i64, 64);
            pi(&mut p, "num_timelines".into(), e.num_timelines_field as i64, 16);
            pi(&mut p, "n_timelines".into(), e.timelines.len() as i64, 64);
            for (k, s) in e.subs.iter().enumerate() { probe_instrs(&mut p, &format!("sub{k}"), e.sub_layout, s); }
            for (k, s) in e.timelines.iter().enumerate() { probe_instrs(&mut p, &format!("tl{k}"), e.timeline_layout, s); }
        },
    }
    Ok(p)
}

// =============================================================================================
// running one case

#[derive(Debug, Clone)]
struct Mismatch { key: String, requested: String, stored: String }

#[derive(Debug, Clone)]
struct CaseResult {
    outcome: &'static str,
    /// failure signature (already normalised) + human-readable one-liner
    failure: Option<(String, String)>,
    comparisons: u64,
    evaluations: u64,
    mismatches: Vec<Mismatch>,
    no_slot: Vec<String>,
    diag_head: String,
    readback: String,
    src_len: usize,
}

fn show_bytes(b: &[u8]) -> String {
    if b.len() <= 24 { format!("{} bytes [{}]", b.len(), hex(b)) } else { format!("{} bytes [{}..{}]", b.len(), hex(&b[..8]), hex(&b[b.len() - 4..])) }
}

fn compare(wants: &[(String, Want)], p: &Probed, corrupt: Option<&str>) -> (u64, Vec<Mismatch>, Vec<String>) {
    let mut n = 0u64;
    let mut mm: Vec<Mismatch> = vec![];
    let mut no_slot = vec![];
    let mut push = |m: Mismatch| { if mm.len() < 12 { mm.push(m); } else if mm.len() == 12 { mm.push(Mismatch { key: "...".into(), requested: "(more)".into(), stored: "".into() }); } };
    // header-level fields first, per-instruction fields second: the first mismatch reported is then the most telling one
    let is_instr_key = |k: &str| k.split('.').any(|seg| seg.len() > 1 && seg.starts_with('i') && seg[1..].chars().all(|c| c.is_ascii_digit()));
    let is_count_key = |k: &str| { let last = k.rsplit('.').next().unwrap_or(k); last.starts_with("num_") || last.starts_with("n_") || last == "table_len" };
    let ordered = wants.iter().filter(|w| is_count_key(&w.0))
        .chain(wants.iter().filter(|w| !is_count_key(&w.0) && !is_instr_key(&w.0)))
        .chain(wants.iter().filter(|w| !is_count_key(&w.0) && is_instr_key(&w.0)));
    for (key, want) in ordered {
        let pkey = key.split('#').next().unwrap();
        match want {
            Want::NoSlot(v) => { if *v != 0 { no_slot.push(format!("{key}={v}")); } continue; },
            _ => {},
        }
        n += 1;
        let got = p.get(pkey);
        match (want, got) {
            (_, None) => push(Mismatch { key: key.clone(), requested: format!("{want:?}").chars().take(60).collect(), stored: "<absent from the file>".into() }),
            (Want::Int(req), Some(Val::Int { v, bits })) => {
                let mut req = *req;
                if corrupt == Some(key.as_str()) { req += 1; }
                let ok = if *bits >= 64 { req == *v } else { let mask = (1i64 << bits) - 1; lenient_fits(req, *bits) && (req & mask) == (*v & mask) };
                if !ok { push(Mismatch { key: key.clone(), requested: req.to_string(), stored: format!("{v} ({bits}-bit field)") }); }
            },
            (Want::Bytes(req), Some(Val::Bytes(b))) => {
                if req != b { push(Mismatch { key: key.clone(), requested: show_bytes(req), stored: show_bytes(b) }); }
            },
            (Want::ArgInt { off, width, value }, Some(Val::Bytes(b))) => {
                let bits = 8 * *width as u32;
                match b.get(*off..*off + *width) {
                    None => push(Mismatch { key: key.clone(), requested: value.to_string(), stored: format!("<blob too short: {}>", b.len()) }),
                    Some(sl) => {
                        let mut raw = [0u8; 8];
                        raw[..*width].copy_from_slice(sl);
                        let v = i64::from_le_bytes(raw);
                        let mask = (1i64 << bits) - 1;
                        if !(lenient_fits(*value, bits) && (*value & mask) == (v & mask)) {
                            push(Mismatch { key: key.clone(), requested: value.to_string(), stored: format!("{v} ({bits}-bit argument)") });
                        }
                    },
                }
            },
            (w, Some(v)) => push(Mismatch { key: key.clone(), requested: format!("{w:?}").chars().take(60).collect(), stored: format!("{v:?}").chars().take(60).collect() }),
        }
    }
    (n, mm, no_slot)
}

fn head(s: &str, n: usize) -> String { s.lines().filter(|l| !l.trim().is_empty()).take(n).collect::<Vec<_>>().join(" | ").chars().take(600).collect() }

fn field_label(devs: &[Dev]) -> String { devs.iter().map(|d| d.field.as_str()).collect::<Vec<_>>().join("+") }

fn run_case(cl: &Class, devs: &[Dev], corrupt: Option<&str>) -> CaseResult {
    let r = render(cl, devs);
    let tool = Tool::new(cl.kind, cl.game);
    let mapfiles: Vec<&str> = if r.mapfile.is_empty() { vec![] } else { vec![r.mapfile.as_str()] };
    let out = drive::compile(tool, r.src.as_bytes(), &CompileOpts { mapfiles: mapfiles.clone(), ..Default::default() });
    let label = field_label(devs);
    let mut res = CaseResult { outcome: "", failure: None, comparisons: 0, evaluations: 1, mismatches: vec![], no_slot: vec![], diag_head: head(&out.diag, 4),
                               readback: String::new(), src_len: r.src.len() };
    let Some(bytes) = out.bytes else {
        if let Some(p) = &out.panic {
            res.outcome = "panic-in-compile";
            res.failure = Some((format!("C03:{}", p.signature()), format!("compile panicked: {}", p.text)));
        } else if !drive::has_error(&out.diag) {
            res.outcome = "failed-without-error-diagnostic";
            res.failure = Some((format!("C03:failed-without-error:{}:{}", cl.name, label), "compile failed but no error/bug diagnostic was rendered".into()));
        } else {
            res.outcome = "rejected-with-error";
        }
        return res;
    };
    // (i) truth reads its own output back
    let dec = drive::decompile(tool, &bytes, &DecompOpts { mapfiles, ..Default::default() });
    res.evaluations += 1;
    let mut unreadable: Option<(String, String)> = None;
    if dec.text.is_none() {
        if let Some(p) = &dec.panic {
            res.readback = format!("truth PANICKED reading its own output: {}", p.text);
            unreadable = Some((format!("C03:unreadable-output:{}:{}", cl.name, label), res.readback.clone()));
        } else {
            res.readback = format!("truth cannot read its own output: {}", head(&dec.diag, 3));
            unreadable = Some((format!("C03:unreadable-output:{}:{}", cl.name, label), res.readback.clone()));
        }
    } else {
        res.readback = "ok".into();
    }
    // (ii) independent walk + field comparison
    match probe(cl, &bytes) {
        Err(e) => {
            res.mismatches.push(Mismatch { key: "<whole file>".into(), requested: "a well-formed file".into(), stored: format!("M2 walker: {e}") });
            if unreadable.is_some() {
                // neither truth nor the independent walker can read the file
                res.outcome = if dec.panic.is_some() { "unreadable-output(truth-panics)" } else { "unreadable-output" };
                res.failure = Some((format!("C03:unreadable-output:{}:{}", cl.name, label), format!("{}; independent walker: {e}", res.readback)));
            } else {
                res.outcome = "m2-cannot-walk-output";
                res.failure = Some((format!("C03:m2-cannot-walk:{}:{}", cl.name, label), format!("truth re-reads the file but the independent walker cannot: {e}")));
            }
        },
        Ok(p) => {
            let (n, mut mm, no_slot) = compare(&r.wants, &p, corrupt);
            let warned = out.diag.lines().any(|l| l.starts_with("warning"));
            if let Some(what) = r.must_warn {
                if !warned { mm.push(Mismatch { key: what.to_string(), requested: "kept, or dropped with a diagnostic".into(), stored: "dropped without any diagnostic".into() }); }
            }
            res.comparisons = n;
            res.no_slot = no_slot;
            if !mm.is_empty() {
                res.outcome = "silent-change";
                let m0 = &mm[0];
                let mut label = label.clone();
                // an instruction with opcode 0xFFFF is stored exactly but IS the script terminator of the format
                if devs.len() == 1 && (devs[0].field.ends_with("opcode") || devs[0].field.ends_with("opcode_map")) && (devs[0].value & 0xFFFF) == 0xFFFF
                    && lenient_fits(devs[0].value, 16) && mm.iter().any(|m| m.stored.contains("absent")) { label += "=0xffff-is-terminator"; }
                res.failure = Some((format!("C03:silent-change:{}:{}", cl.name, label), format!("C03:{}/{}: requested {} got {}", cl.name, m0.key, m0.requested, m0.stored)));
                res.mismatches = mm;
            } else if let Some(u) = unreadable.clone() {
                res.outcome = if dec.panic.is_some() { "unreadable-output(truth-panics)" } else { "unreadable-output" };
                res.failure = Some(u);
            } else if !res.no_slot.is_empty() {
                res.outcome = if out.diag.lines().any(|l| l.starts_with("warning")) { "no-slot-field-dropped-with-warning" } else { "no-slot-field-accepted-silently" };
            } else if r.must_warn.is_some() {
                res.outcome = "documented-drop-with-warning";
            } else {
                res.outcome = "ok-exact";
            }
        },
    }
    if res.failure.is_some() && res.outcome == "silent-change" {
        if let Some(u) = unreadable { res.readback = u.1; }
    }
    // cross-check through truth's own reader where the printed form is unambiguous
    if res.failure.is_none() {
        if let (Some(text), [d]) = (&dec.text, devs) {
            let printed = match (cl.kind, d.field.as_str()) {
                (Kind::Std, "layer") | (Kind::Std, "anm_script") => Some((d.field.as_str(), 16)),
                (Kind::Mission, "stage") | (Kind::Mission, "scene") | (Kind::Mission, "player") => Some((d.field.as_str(), 16)),
                (Kind::Mission, "unknown_1") | (Kind::Mission, "unknown_2") => Some((d.field.as_str(), 8)),
                _ => None,
            };
            if let Some((name, bits)) = printed {
                res.comparisons += 1;
                let stored = d.value & ((1i64 << bits) - 1);
                let needle = format!("{name}: {stored}");
                let found = text.match_indices(&needle).any(|(i, _)| !text[i + needle.len()..].starts_with(|c: char| c.is_ascii_digit()));
                if !found {
                    res.outcome = "truth-reader-disagrees";
                    res.failure = Some((format!("C03:truth-reader-disagrees:{}:{}", cl.name, d.field), format!("M2 sees {stored} in the file but the decompiled text has no '{needle}'")));
                }
            }
        }
    }
    res
}

// =============================================================================================
// the run

const HEAVY_THREADS: usize = 6;

/// like `par_map` but with a caller-chosen number of workers (for the memory-hungry cases)
fn small_pool<T: Sync, R: Send>(items: &[T], threads: usize, deadline: std::time::Instant, f: &(dyn Fn(&T) -> R + Sync)) -> Vec<Option<R>> {
    let next = std::sync::atomic::AtomicUsize::new(0);
    let results: std::sync::Mutex<Vec<Option<R>>> = std::sync::Mutex::new((0..items.len()).map(|_| None).collect());
    std::thread::scope(|s| {
        for _ in 0..threads.min(items.len()) {
            std::thread::Builder::new().stack_size(64 << 20).spawn_scoped(s, || loop {
                let i = next.fetch_add(1, std::sync::atomic::Ordering::Relaxed);
                if i >= items.len() || std::time::Instant::now() > deadline { break; }
                let r = f(&items[i]);
                results.lock().unwrap()[i] = Some(r);
            }).expect("spawn");
        }
    });
    results.into_inner().unwrap()
}

#[derive(Debug, Clone)]
struct Item { class: usize, devs: Vec<Dev>, nontrivial: bool, strictly_fitting: bool, heavy: bool, pair: bool }

fn corrupt_target() -> Option<(&'static str, &'static str, i64, &'static str)> {
    // (class, deviating field, value, want key whose requested value is perturbed)
    if std::env::var("VERIF_C03_SELFTEST_CORRUPT").map(|v| v == "1").unwrap_or(false) { Some(("std-10", "unknown", 1, "unknown")) } else { None }
}

fn witness_detail(cl: &Class, devs: &[Dev], res: &CaseResult, human: &str) -> Value {
    let r = render(cl, devs);
    let src = if r.src.len() <= 6000 { r.src.clone() } else { format!("{}\n... [{} bytes in total; regenerate with `replay`] ...\n{}", &r.src[..2500], r.src.len(), &r.src[r.src.len() - 1200..]) };
    json!({
        "class": cl.name, "tool": format!("{:?}", cl.kind), "game": cl.game.as_str(),
        "devs": devs.iter().map(|d| json!({"field": d.field, "value": d.value})).collect::<Vec<_>>(),
        "what": human,
        "mismatches": res.mismatches.iter().map(|m| json!({"field": m.key, "requested": m.requested, "stored": m.stored})).collect::<Vec<_>>(),
        "truth_readback": res.readback,
        "compile_diagnostics": res.diag_head,
        "source": src, "mapfile": r.mapfile,
    })
}

// =============================================================================================
// CLI family: the file the real command line leaves on disk

/// For every class: the base file and the file with one more script-level deviation are compiled by the real command
/// line (`truth-verif as-truth-core …` = `cli_def::truth_main`) into an output path that is (a) fresh, (b) already
/// occupied by a LONGER file (the output of an earlier compile of a bigger source, and 64 KiB of filler), (c) occupied
/// by a shorter file; and twice in a row into one path.  What is on disk afterwards must be byte-identical to what the
/// in-memory driver produced for the same source (which is the file every other C03 comparison is made on), and must
/// read back with truth.  A failed compile must not leave a file that differs from "nothing written"... (not required
/// by the property; only counted).
struct CliOutc { class: String, evals: u64, fails: Vec<(String, Value)> }

fn cli_family(cls: &[Class]) -> Vec<CliOutc> {
    let items: Vec<usize> = (0..cls.len()).collect();
    par_map(&items, None, |_, &ci| {
        let cl = &cls[ci];
        let tool = Tool::new(cl.kind, cl.game);
        let mut o = CliOutc { class: cl.name.to_string(), evals: 0, fails: vec![] };
        let dir = drive::scratch_dir().join(format!("c03-cli-{}", cl.name));
        let _ = std::fs::create_dir_all(&dir);
        // sources: the base file, and a bigger one (more items) used to occupy the output path first
        let small = render(cl, &[]);
        let big_field = cl.fields.iter().find(|f| f.kind == FK::Count && f.name != "n_timelines");
        let big = big_field.map(|f| render(cl, &[Dev { field: f.name.clone(), value: 4 }]));
        let write_in = |name: &str, r: &Rendered| -> (String, Option<String>) {
            let p = dir.join(format!("{name}.spec")); std::fs::write(&p, &r.src).expect("write source");
            let m = if r.mapfile.is_empty() { None } else { let mp = dir.join(format!("{name}.map")); std::fs::write(&mp, &r.mapfile).expect("write mapfile"); Some(mp.display().to_string()) };
            (p.display().to_string(), m)
        };
        let cli_compile = |inp: &(String, Option<String>), outp: &std::path::Path| -> drive::CliOut {
            let mut args = tool.cli("compile");
            args.extend([inp.0.clone(), "-o".into(), outp.display().to_string()]);
            if let Some(m) = &inp.1 { args.extend(["-m".into(), m.clone()]); }
            drive::run_cli(&args, &[])
        };
        let inproc = |r: &Rendered| -> Option<Vec<u8>> {
            let mapfiles: Vec<&str> = if r.mapfile.is_empty() { vec![] } else { vec![r.mapfile.as_str()] };
            drive::compile(tool, r.src.as_bytes(), &CompileOpts { mapfiles, ..Default::default() }).bytes
        };
        let small_in = write_in("small", &small);
        let want_small = inproc(&small);
        let big_in = big.as_ref().map(|b| write_in("big", b));
        let want_big = big.as_ref().and_then(|b| inproc(b));
        let mut judge = |o: &mut CliOutc, scenario: &str, out: &drive::CliOut, path: &std::path::Path, want: &Option<Vec<u8>>, src: &str| {
            o.evals += 1;
            let on_disk = std::fs::read(path).ok();
            let det = |what: String| json!({"family": "cli", "class": cl.name, "scenario": scenario, "what": what, "source": src,
                "cli_status": out.status, "cli_stderr": String::from_utf8_lossy(&out.stderr).chars().take(600).collect::<String>(),
                "bytes_on_disk": on_disk.as_ref().map(|b| b.len()), "bytes_expected": want.as_ref().map(|b| b.len())});
            match (out.status, want) {
                (0, Some(w)) => {
                    match &on_disk {
                        None => o.fails.push((format!("C03:cli:no-output-file:{}:{scenario}", cl.name), det("exit status 0 but no output file".into()))),
                        Some(d) if d != w => {
                            let what = if d.len() > w.len() && d[..w.len()] == w[..] { format!("the file on disk is the requested file followed by {} stale bytes", d.len() - w.len()) }
                                else { format!("the file on disk ({} bytes) differs from the file the same source compiles to in memory ({} bytes)", d.len(), w.len()) };
                            o.fails.push((format!("C03:cli:file-on-disk-differs:{}:{scenario}", cl.name), det(what)));
                        },
                        Some(d) => {
                            // and it reads back through the real command line
                            let mut args = tool.cli("decompile"); args.push(path.display().to_string());
                            if let Some(m) = &small_in.1 { args.extend(["-m".into(), m.clone()]); }
                            let r = drive::run_cli(&args, &[]);
                            o.evals += 1;
                            if r.status != 0 { o.fails.push((format!("C03:cli:unreadable-output:{}:{scenario}", cl.name), det(format!("decompile of the written file failed: {}", String::from_utf8_lossy(&r.stderr).chars().take(300).collect::<String>())))); }
                            let _ = d;
                        },
                    }
                },
                (0, None) => o.fails.push((format!("C03:cli:driver-disagrees:{}:{scenario}", cl.name), det("the command line succeeded on a source the in-memory driver rejects".into()))),
                (_, Some(_)) => o.fails.push((format!("C03:cli:driver-disagrees:{}:{scenario}", cl.name), det("the command line failed on a source the in-memory driver compiles".into()))),
                (_, None) => {},
            }
        };
        // (a) fresh path
        let p = dir.join("fresh.bin");
        let out = cli_compile(&small_in, &p); judge(&mut o, "fresh-path", &out, &p, &want_small, &small.src);
        // (b) path occupied by 64 KiB of filler
        let p = dir.join("filler.bin"); std::fs::write(&p, vec![0xAAu8; 65536]).expect("filler");
        let out = cli_compile(&small_in, &p); judge(&mut o, "over-64KiB-filler", &out, &p, &want_small, &small.src);
        // (c) path occupied by a shorter file
        let p = dir.join("short.bin"); std::fs::write(&p, b"xx").expect("short");
        let out = cli_compile(&small_in, &p); judge(&mut o, "over-2-byte-file", &out, &p, &want_small, &small.src);
        // (d) big then small into one path, then small again
        if let (Some(bi), Some(b)) = (&big_in, &big) {
            let p = dir.join("reused.bin");
            let out = cli_compile(bi, &p); judge(&mut o, "bigger-source-first", &out, &p, &want_big, &b.src);
            let out = cli_compile(&small_in, &p); judge(&mut o, "smaller-source-over-bigger-output", &out, &p, &want_small, &small.src);
            let out = cli_compile(&small_in, &p); judge(&mut o, "same-source-again", &out, &p, &want_small, &small.src);
            let out = cli_compile(bi, &p); judge(&mut o, "bigger-source-over-smaller-output", &out, &p, &want_big, &b.src);
        }
        let _ = std::fs::remove_dir_all(&dir);
        o
    }).into_iter().flatten().collect()
}

pub fn run(tier: &str) -> Report {
    let mut rep = Report::new("C03", tier, "model_checking");
    // quick: every class, D = 1 without the 65536-item counts, D = 2 with the reduced value sets;
    // thorough: + the heavy counts, D = 2 over the full (non-heavy) boundary sets of both fields
    let extra = rep.is_thorough();
    let thorough = extra;
    let cls = classes(true);
    let corrupt = corrupt_target();

    // ---- enumerate D = 1
    let mut items: Vec<Item> = vec![];
    for (ci, cl) in cls.iter().enumerate() {
        items.push(Item { class: ci, devs: vec![], nontrivial: false, strictly_fitting: true, heavy: false, pair: false }); // the base file
        for f in &cl.fields {
            for v in field_values(cl, f, thorough) {
                items.push(Item {
                    class: ci, devs: vec![Dev { field: f.name.clone(), value: v }], nontrivial: is_nontrivial(cl, f, v),
                    strictly_fitting: match f.kind { FK::Int => strict_fits(v, f.bits.min(32), f.signed || f.bits >= 32), _ => !is_nontrivial(cl, f, v) },
                    heavy: is_heavy(f, v), pair: false,
                });
            }
        }
    }
    // heavy cases last in the list; they run on their own small pool (bounded memory) while the cheap ones run on par_map
    items.sort_by_key(|i| i.heavy);
    let n_single = items.len();
    let n_light = items.iter().filter(|i| !i.heavy).count();
    let deadline = rep.deadline();
    let run_item = |it: &Item| {
        let cl = &cls[it.class];
        let c = corrupt.and_then(|(cn, f, v, key)| (cl.name == cn && it.devs.len() == 1 && it.devs[0].field == f && it.devs[0].value == v).then_some(key));
        run_case(cl, &it.devs, c)
    };
    let (light_items, heavy_items) = items.split_at(n_light);
    let mut results: Vec<Option<CaseResult>> = vec![];
    let mut heavy_results: Vec<Option<CaseResult>> = vec![];
    std::thread::scope(|s| {
        let h = std::thread::Builder::new().spawn_scoped(s, || small_pool(heavy_items, HEAVY_THREADS, deadline, &run_item)).expect("spawn");
        results = par_map(light_items, Some(deadline), |_, it| run_item(it));
        heavy_results = h.join().expect("heavy pool");
    });
    results.extend(heavy_results);

    // ---- D = 2 (thorough): pairs of fields, reduced value sets; only interactions are reported
    let mut single_fail: BTreeSet<(usize, String, i64)> = BTreeSet::new();
    let mut single_reject: BTreeSet<(usize, String, i64)> = BTreeSet::new();
    for (it, r) in items.iter().zip(&results) {
        if let (Some(r), [d]) = (r, &it.devs[..]) {
            if r.failure.is_some() { single_fail.insert((it.class, d.field.clone(), d.value)); }
            if r.outcome == "rejected-with-error" { single_reject.insert((it.class, d.field.clone(), d.value)); }
        }
    }
    let mut pair_items: Vec<Item> = vec![];
    let pv = |cl: &Class, f: &FieldDef| -> Vec<i64> {
        if !extra { return pair_values(cl, f); }
        let mut v: Vec<i64> = field_values(cl, f, false).into_iter().filter(|&x| !is_heavy(f, x) && !(f.kind == FK::Count && x > 4) && !(f.kind == FK::TableLen && x > 4)).collect();
        if matches!(f.kind, FK::Layout | FK::Bool | FK::TableLen) { v.clear(); }
        for x in pair_values(cl, f) { if !v.contains(&x) { v.push(x); } }
        v
    };
    {
        for (ci, cl) in cls.iter().enumerate() {
            for (ia, fa) in cl.fields.iter().enumerate() {
                for fb in cl.fields.iter().skip(ia + 1) {
                    for va in pv(cl, fa) {
                        for vb in pv(cl, fb) {
                            // has_data: "dummy" makes truth allocate width*height*bpp bytes: 65536 x 65536 is 8 GB
                            if fa.name.starts_with("img_") && fb.name.starts_with("img_") && va.saturating_mul(vb) > (1 << 23) { rep.discard("dummy image larger than 8M pixels (resource exhaustion is not C03's subject)"); continue; }
                            pair_items.push(Item {
                                class: ci, devs: vec![Dev { field: fa.name.clone(), value: va }, Dev { field: fb.name.clone(), value: vb }],
                                nontrivial: is_nontrivial(cl, fa, va) || is_nontrivial(cl, fb, vb), strictly_fitting: false, heavy: false, pair: true,
                            });
                        }
                    }
                }
            }
        }
    }
    {
        // the one known two-field collision: a TH06/TH07 timeline instruction with time -1 and arg0 4 IS the terminator
        for (ci, cl) in cls.iter().enumerate() {
            if cl.scripts.iter().any(|s| s.has_arg0) {
                pair_items.push(Item { class: ci, devs: vec![Dev { field: "tl.time".into(), value: -1 }, Dev { field: "tl.arg0".into(), value: 4 }], nontrivial: false, strictly_fitting: true, heavy: false, pair: true });
            }
        }
    }
    let pair_results = par_map(&pair_items, Some(deadline), |_, it| run_case(&cls[it.class], &it.devs, None));

    // ---- aggregate
    let mut failures: BTreeMap<String, Vec<(usize, bool)>> = BTreeMap::new(); // signature -> [(index, is_pair)]
    let mut unexpected_rejections: Vec<Value> = vec![];
    let mut no_slot_seen: BTreeMap<String, u64> = BTreeMap::new();
    let mut states: BTreeSet<(usize, Vec<Dev>)> = BTreeSet::new();
    let mut nontrivial: BTreeSet<(usize, Vec<Dev>)> = BTreeSet::new();
    let mut not_run = 0u64;
    let mut per_class: BTreeMap<&str, (u64, u64)> = BTreeMap::new();
    for (is_pair, its, ress) in [(false, &items, &results), (true, &pair_items, &pair_results)] {
        for (idx, (it, r)) in its.iter().zip(ress.iter()).enumerate() {
            rep.transitions += 1;
            let Some(r) = r else { not_run += 1; continue };
            let cl = &cls[it.class];
            states.insert((it.class, it.devs.clone()));
            if it.nontrivial { nontrivial.insert((it.class, it.devs.clone())); }
            rep.evaluations += r.evaluations;
            rep.traces_validated += r.comparisons;
            let e = per_class.entry(cl.name).or_insert((0, 0));
            e.0 += 1; e.1 += r.comparisons;
            let mut outcome = r.outcome.to_string();
            if r.outcome == "ok-exact" && it.devs.len() == 1 && !it.pair {
                let d = &it.devs[0];
                let f = cl.fields.iter().find(|f| f.name == d.field).unwrap();
                if f.kind == FK::Int && f.bits < 32 && !strict_fits(d.value, f.bits, f.signed) { outcome = "ok-exact-modulo-signedness".into(); }
            }
            if r.outcome == "rejected-with-error" && it.strictly_fitting && !it.pair {
                outcome = "rejected-with-error(value-fits)".into();
                if unexpected_rejections.len() < 400 {
                    unexpected_rejections.push(json!({"class": cl.name, "devs": it.devs.iter().map(|d| format!("{}={}", d.field, d.value)).collect::<Vec<_>>(), "diag": r.diag_head.chars().take(200).collect::<String>()}));
                }
                if it.devs.is_empty() { rep.machinery_errors.push(format!("base file of {} does not compile: {}", cl.name, r.diag_head)); }
            }
            for ns in &r.no_slot { *no_slot_seen.entry(format!("{}:{}:{}", cl.name, ns.split('=').next().unwrap().rsplit('.').next().unwrap(), r.outcome)).or_insert(0) += 1; }
            if let Some((sig, _)) = &r.failure {
                if is_pair {
                    // only interactions: neither half fails or is rejected on its own
                    let implied = it.devs.iter().any(|d| single_fail.contains(&(it.class, d.field.clone(), d.value)));
                    if implied { rep.outcome("pair-failure-implied-by-single-field"); continue; }
                }
                if it.devs.is_empty() { rep.machinery_errors.push(format!("base file of {} fails the comparison: {:?}", cl.name, r.failure)); }
                failures.entry(sig.clone()).or_default().push((idx, is_pair));
            }
            rep.outcome(&outcome);
            if rep.samples.len() < 10 && idx % 97 == 3 && !it.devs.is_empty() {
                rep.sample(json!({"class": cl.name, "devs": it.devs.iter().map(|d| format!("{}={}", d.field, d.value)).collect::<Vec<_>>(), "outcome": outcome, "comparisons": r.comparisons}));
            }
        }
    }
    rep.states = states.len() as u64;
    rep.nontrivial = nontrivial.len() as u64;
    rep.rule = "the deviating value does not fit the stored width of its field (integer outside [-2^(w-1), 2^w-1]; count above the count field's maximum; string/blob longer than the size field or buffer can describe); fitting values are the control group".into();

    let mut failure_counts: BTreeMap<String, u64> = BTreeMap::new();
    let mut witness_table: Vec<Value> = vec![];
    for (sig, v) in &failures {
        failure_counts.insert(sig.clone(), v.len() as u64);
        // minimal witness: fewest deviations, smallest |value|, shortest source
        let pick = v.iter().min_by_key(|&&(idx, is_pair)| {
            let (it, r) = if is_pair { (&pair_items[idx], pair_results[idx].as_ref().unwrap()) } else { (&items[idx], results[idx].as_ref().unwrap()) };
            (it.devs.len(), it.devs.iter().any(|d| d.value < 0), it.devs.iter().map(|d| d.value.unsigned_abs()).max().unwrap_or(0), r.src_len)
        }).unwrap();
        let (it, r) = if pick.1 { (&pair_items[pick.0], pair_results[pick.0].as_ref().unwrap()) } else { (&items[pick.0], results[pick.0].as_ref().unwrap()) };
        let cl = &cls[it.class];
        let mut detail = witness_detail(cl, &it.devs, r, &r.failure.as_ref().unwrap().1);
        let all_vals: Vec<String> = v.iter().take(40).map(|&(idx, p)| { let it = if p { &pair_items[idx] } else { &items[idx] }; it.devs.iter().map(|d| d.value.to_string()).collect::<Vec<_>>().join("&") }).collect();
        detail["all_failing_values"] = json!(all_vals);
        detail["occurrences"] = json!(v.len());
        witness_table.push(json!({"signature": sig, "witness": it.devs.iter().map(|d| format!("{}={}", d.field, d.value)).collect::<Vec<_>>(),
            "what": r.failure.as_ref().unwrap().1.chars().take(300).collect::<String>(), "all_failing_values": detail["all_failing_values"], "readback": r.readback.chars().take(160).collect::<String>()}));
        rep.fail(sig.clone(), detail);
    }
    // ---- CLI family
    let cli = cli_family(&cls);
    let mut cli_cases = 0u64;
    for o in cli {
        rep.evaluations += o.evals; rep.traces_validated += o.evals; cli_cases += o.evals;
        rep.outcome(if o.fails.is_empty() { "cli:ok" } else { "cli:VIOLATION" });
        for (sig, d) in o.fails { rep.fail(sig, d); }
    }
    rep.extra.insert("cli_family_runs".into(), json!(cli_cases));
    // ---- ANM entries whose path names a runtime texture ('@…'): with and without an embedded image; whatever compiles
    //      must read back
    {
        let mut n = 0u64;
        for cl in cls.iter().filter(|c| c.kind == Kind::Anm) {
            let tool = Tool::new(cl.kind, cl.game);
            for path in ["@R", "@", "@@x.png", "a@b.png"] { for has_data in ["false", "\"dummy\""] { for two in [false, true] {
                let e = |p: &str, k: usize| format!("entry {{\n    path: \"{p}\", has_data: {has_data}, img_width: 8, img_height: 4, img_format: 3,\n    sprites: {{ s{k}: {{id: {k}, x: 0.0, y: 0.0, w: 1.0, h: 1.0}} }},\n}}\nscript scr{k} {{ }}\n");
                let src = if two { format!("{}{}", e(path, 0), e("other.png", 1)) } else { e(path, 0) };
                let out = drive::compile(tool, src.as_bytes(), &CompileOpts::default());
                n += 1; rep.evaluations += 1; rep.traces_validated += 1;
                let det = |what: String| json!({"family": "anm-at-path", "class": cl.name, "source": src, "what": what});
                if let Some(p) = &out.panic { rep.fail(format!("C03:{}", p.signature()), det(p.text.clone())); continue; }
                match out.bytes {
                    None => { if !drive::has_error(&out.diag) { rep.fail(format!("C03:failed-without-error:{}:at-path", cl.name), det(out.diag.clone())); } rep.outcome("at-path:rejected-with-error"); },
                    Some(bytes) => {
                        let dec = drive::decompile(tool, &bytes, &DecompOpts::default());
                        rep.evaluations += 1;
                        if dec.text.is_none() { rep.outcome("at-path:UNREADABLE"); rep.fail(format!("C03:unreadable-output:{}:at-path", cl.name), det(format!("truth cannot read its own output: {}", head(&dec.diag, 3)))); }
                        else { rep.outcome("at-path:ok"); }
                    },
                }
            }}}
        }
        rep.extra.insert("anm_at_path_cases".into(), json!(n));
    }
    // ---- TH10+ ECL string tables (anim / ecli lists, sub names): names of every byte length class (ASCII, 1-4 full-width
    //      characters, half-width kana, mixed), 0-3 entries per list; whatever compiles must read back with the same names
    {
        let mut n = 0u64;
        let names = ["a.anm", "ab", "abc", "abcd", "敵.anm", "敵敵.anm", "敵敵敵.anm", "敵敵敵敵.anm", "ｱ.anm", "ｱｲ.anm", "a敵b.anm", "敵", "日本語のファイル.ecl", ""];
        for game in ["th10", "th12", "th17"] {
            let tool = Tool::new(Kind::Ecl, g(game));
            let mut lists: Vec<(Vec<&str>, Vec<&str>)> = vec![];
            for a in names { lists.push((vec![a], vec![])); lists.push((vec![], vec![a])); for b in ["x.anm", "敵.anm"] { lists.push((vec![a, b], vec![b])); lists.push((vec![b, a], vec![a, b, a])); } }
            for (anim, ecli) in lists {
                let q = |v: &Vec<&str>| v.iter().map(|s| format!("\"{s}\"")).collect::<Vec<_>>().join(", ");
                let src = format!("meta {{\n    anim: [{}],\n    ecli: [{}],\n}}\nvoid main() {{\n    ins_10(@blob=\"\");\n}}\n", q(&anim), q(&ecli));
                let out = drive::compile(tool, src.as_bytes(), &CompileOpts::default());
                n += 1; rep.evaluations += 1; rep.traces_validated += 1;
                let det = |what: String| json!({"family": "ecl10-string-tables", "class": format!("ecl-{game}"), "source": src, "what": what});
                if let Some(p) = &out.panic { rep.fail(format!("C03:{}", p.signature()), det(p.text.clone())); continue; }
                let Some(bytes) = out.bytes else { if !drive::has_error(&out.diag) { rep.fail(format!("C03:failed-without-error:ecl-{game}:string-tables"), det(out.diag.clone())); } rep.outcome(&format!("ecl10-strings:rejected-with-error:{}", out.diag.lines().next().unwrap_or("").chars().take(60).collect::<String>())); continue; };
                let dec = drive::decompile(tool, &bytes, &DecompOpts::default());
                rep.evaluations += 1;
                match dec.text {
                    None => { rep.outcome("ecl10-strings:UNREADABLE"); rep.fail(format!("C03:unreadable-output:ecl-{game}:string-tables"), det(format!("truth cannot read its own output: {}", head(&dec.diag, 3)))); },
                    Some(text) => {
                        let want_anim = format!("anim: [{}]", q(&anim)); let want_ecli = format!("ecli: [{}]", q(&ecli));
                        let flat: String = text.split_whitespace().collect::<Vec<_>>().join(" ").replace("[ ", "[").replace(" ]", "]").replace(",]", "]").replace(", ]", "]");
                        // (an empty list is not printed)
                        if (anim.is_empty() || flat.contains(&want_anim)) && (ecli.is_empty() || flat.contains(&want_ecli)) && (!anim.is_empty() || !flat.contains("anim:")) && (!ecli.is_empty() || !flat.contains("ecli:")) { rep.outcome("ecl10-strings:ok"); }
                        else { rep.outcome("ecl10-strings:CHANGED"); rep.fail(format!("C03:silent-change:ecl-{game}:string-tables"), det(format!("requested {want_anim} / {want_ecli}; read back: {}", flat.chars().take(300).collect::<String>()))); }
                    },
                }
            }
        }
        rep.extra.insert("ecl10_string_table_cases".into(), json!(n));
    }


    rep.extra.insert("witness_table".into(), json!(witness_table));
    rep.extra.insert("failure_counts".into(), json!(failure_counts));
    rep.extra.insert("rejections_of_fitting_values".into(), json!(unexpected_rejections));
    rep.extra.insert("fields_without_a_slot".into(), json!(no_slot_seen));
    rep.extra.insert("per_class_cases_and_comparisons".into(), json!(per_class.iter().map(|(k, v)| json!({"class": k, "cases": v.0, "field_comparisons": v.1})).collect::<Vec<_>>()));
    rep.extra.insert("classes".into(), json!(cls.iter().map(|c| json!({"class": c.name, "game": c.game.as_str(), "fields": c.fields.iter().map(|f| format!("{}:{}", f.name, f.bits)).collect::<Vec<_>>()})).collect::<Vec<_>>()));
    if corrupt.is_some() { rep.extra.insert("selftest_corrupt".into(), json!("VERIF_C03_SELFTEST_CORRUPT=1: the requested value of std-10 header `unknown` was perturbed (+1) in the comparison of the case unknown=1")); }

    if not_run > 0 { rep.cap_hit = Some(format!("wall-clock cap: {not_run} of {} cases not run", n_single + pair_items.len())); }
    rep.exhaustive = not_run == 0;
    rep.bound_completed = format!("CLI family: every class through the real command line into fresh / occupied (longer, shorter, earlier output) paths, bytes on disk == in-memory bytes; D=1 over {} format classes x every listed field x its boundary value set ({} cases){}; counts up to {}",
        cls.len(), n_single, format!("; D=2 over all field pairs with {} value sets ({} cases)", if extra { "the full non-heavy boundary" } else { "reduced" }, pair_items.len()),
        if thorough { "65537 items" } else { "257 items (65535..65537 only in thorough)" });
    rep.assumptions = vec![
        "a w-bit field is taken to hold any integer in [-2^(w-1), 2^w-1]: a two's-complement reinterpretation (e.g. -1 in a u16 field read back as 65535) is NOT counted as a change; this is the same rule truth's own check_int_fits_in_bytes applies".into(),
        "32-bit fields: the source language has 32-bit integers, values are compared modulo 2^32".into(),
        "only fields the source sets explicitly are compared; auto-computed offsets, sizes of generated image data and defaulted fields are not".into(),
        "fields a format has no slot for (offset_x/low_res_scale in old ANM headers, colorkey in new ones, @mask where the header has no mask, MSG flags before TH09) are reported in coverage.fields_without_a_slot, not as violations".into(),
        "img_width/img_height are limited to [0, 200000] (has_data: \"dummy\" allocates width*height*bpp bytes) and MSG table_len to <= 65536 (truth allocates table_len entries): resource exhaustion is C04's subject".into(),
        "M2 walkers are the independent reader; they were cross-checked against truth's readers by `truth-verif m2-selftest`".into(),
    ];
    rep.explanation = "Each case = (format class, one or two deviating fields with boundary values). The generator renders a complete source file and knows every value it requested; after a successful compile the file is re-read by truth (must succeed) and walked by M2, and every requested field is compared with the stored one. A compile failure must carry an error diagnostic.".into();
    rep
}

// =============================================================================================
// replay

pub fn replay(detail: &Value) -> i32 {
    let Some(cname) = detail["class"].as_str() else { println!("replay: no class in detail"); return 2; };
    let cls = classes(true);
    let Some(cl) = cls.iter().find(|c| c.name == cname) else { println!("replay: unknown class {cname}"); return 2; };
    if detail["family"] == "cli" {
        let one: Vec<Class> = cls.iter().filter(|c| c.name == cname).cloned().collect();
        let outs = cli_family(&one);
        let mut n = 0;
        for o in outs { for (sig, d) in o.fails { println!("STILL FAILS: {sig}\n  {}", d["what"]); n += 1; } }
        drive::cleanup_scratch();
        return if n > 0 { 1 } else { println!("passes now"); 0 };
    }
    let devs: Vec<Dev> = detail["devs"].as_array().map(|a| a.iter().filter_map(|d| Some(Dev { field: d["field"].as_str()?.to_string(), value: d["value"].as_i64()? })).collect()).unwrap_or_default();
    let r = render(cl, &devs);
    println!("class {} ({:?} {}), deviations: {:?}", cl.name, cl.kind, cl.game.as_str(), devs.iter().map(|d| format!("{}={}", d.field, d.value)).collect::<Vec<_>>());
    if r.src.len() <= 4000 { println!("--- source ---\n{}--- mapfile ---\n{}", r.src, r.mapfile); } else { println!("--- source: {} bytes (not shown) ---", r.src.len()); }
    let corrupt = corrupt_target().and_then(|(cn, f, v, key)| (cl.name == cn && devs.len() == 1 && devs[0].field == f && devs[0].value == v).then_some(key));
    let res = run_case(cl, &devs, corrupt);
    println!("outcome: {}", res.outcome);
    println!("compile diagnostics: {}", if res.diag_head.is_empty() { "<none>" } else { &res.diag_head });
    println!("truth read-back: {}", res.readback);
    println!("field comparisons: {}", res.comparisons);
    for m in &res.mismatches { println!("  {}: requested {}  stored {}", m.key, m.requested, m.stored); }
    match &res.failure {
        Some((sig, what)) => { println!("STILL FAILS: {sig}\n  {what}"); 1 },
        None => { println!("passes now"); 0 },
    }
}
