//! (stub; being written)
#![allow(dead_code)]
use crate::common::Report;
pub fn run(tier: &str) -> Report { Report::new("C03", tier, "model_checking") }
pub fn replay(_detail: &serde_json::Value) -> i32 { 2 }
