#!/bin/bash
# Build the harness (and truth with hooks on) offline into /verif/target.
set -e
ROOT="$(cd "$(dirname "$0")" && pwd)"
export CARGO_NET_OFFLINE=true
cd "$ROOT/harness"
cargo build --offline
if [ -f "$ROOT/shim/getrandom.c" ]; then
    gcc -O2 -shared -fPIC -o "$ROOT/target/libverif_seed.so" "$ROOT/shim/getrandom.c"
fi
echo "setup ok"
